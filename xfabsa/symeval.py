"""
E3 -- algebraic value numbering of straight-line numeric code.

An abstract interpreter over the syntax tree whose value domain is the normal
form of xfabsa.poly (rational functions over uninterpreted atoms with sqrt and
sin/cos relations) plus fixed-shape arrays of such values.  It performs
constant propagation (literal-range loops are unrolled, branches whose test
folds to a constant are selected), copy propagation and inlining of
module-local helper functions; shape-level numpy operators whose meaning is
part of the trusted base (array, zeros, eye, transpose, dot, sum, cross, norm,
elementwise arithmetic) are interpreted entry-wise on arrays whose entries are
explicit; everything else (inv, qr, det, unknown calls) is an *opaque value
with provenance* whose entries are atoms.

No path conditions, no solver, no sampling: a branch whose test does not fold
needs an explicit per-rule branch policy, otherwise the run is an
AnalysisError.
"""
from __future__ import annotations

import ast
from fractions import Fraction

from .core import AnalysisError, unparse
from .api import is_helper
from .poly import Rat, as_rat, sqrt_of, func_atom, atom_info, split_content, _frac_gcd, p_content, single_atom, mono_items


class IRat(Rat):
    """a constant of integer *type* (an int literal, an item of range() / arange of ints, sums and products of such).
    Arithmetic in Rat returns plain Rat: the type is kept only where the evaluator re-attaches it, so losing it is the
    conservative direction (an array is treated as integer-typed only when every item provably is)."""
    __slots__ = ()


def iconst(i):
    r = Rat.const(i)
    return IRat(r.num, r.den, _reduced=True)


def as_int_typed(x):
    return iconst(int(x.const_value())) if isinstance(x, Rat) and x.is_const() and Fraction(x.const_value()).denominator == 1 else x


def sum_of_squares(x):
    """x >= 0 for all real values of its atoms, syntactically: numerator and denominator are sums of monomials with even
    exponents and positive coefficients"""
    if not isinstance(x, Rat) or x.is_zero():
        return isinstance(x, Rat)
    for p_ in (x.num, x.den):
        for m_, c_ in p_.items():
            if c_ <= 0 or any(e_ % 2 for _a, e_ in mono_items(m_)):
                return False
    return True


def may_be_integer(x):
    """a NUMBER whose type is an integer type whenever the caller's data are integers: an integer-typed constant, or a
    polynomial with integer coefficients in bare input atoms (`tx`, `cell[3]`; no function value, no radical, no pi, no
    division).  numpy.array / asarray / *_like give such numbers an integer dtype."""
    if isinstance(x, IRat):
        return True
    if not isinstance(x, Rat) or x.is_const():
        return False
    from .poly import ATOM_ARGS, RADICAND, p_is_const, p_const_value
    if not (p_is_const(x.den) and p_const_value(x.den) == 1):
        return False
    if any(Fraction(c).denominator != 1 for c in x.num.values()):
        return False
    return all(a not in ATOM_ARGS and a not in RADICAND and a != "pi" and "(" not in a for a in x.atoms())


class Arr:
    """fixed-shape array of values (nested python lists, mutable)"""

    int_dtype = False          # every item is an integer-typed constant and no dtype was given: stores truncate

    inherits_dtype = False     # created by array()/asarray() of caller data without a dtype: integer input stays integer

    root = None                # a VIEW (basic slice of another array): the array it shares its memory with ...
    paths = None               # ... and, per entry of the view, the index path of that entry in `root`

    def __init__(self, data):
        self._data = data

    @property
    def data(self):
        if self.root is not None:
            # always read through: a store into the root (or into another view of it) is seen by this view
            def rd(p):
                if isinstance(p, list):
                    return [rd(q) for q in p]
                d = self.root._data
                for i in p:
                    d = d[i]
                return d
            return rd(self.paths)
        return self._data

    @data.setter
    def data(self, value):
        self._data = value
        self.root = self.paths = None

    @classmethod
    def view(cls, base, sel):
        """the view of `base` (an Arr, possibly itself a view) whose entries are the entries of base at the index paths in `sel`
        (paths relative to base)"""
        if base.root is not None:
            def through(p):
                if isinstance(p, list):
                    return [through(q) for q in p]
                d = base.paths
                for i in p:
                    d = d[i]
                return d
            root, sel = base.root, through(sel)
        else:
            root = base
        v = cls(None)
        v.root, v.paths = root, sel
        if root.int_dtype:
            v.int_dtype = True
        if root.inherits_dtype:
            v.inherits_dtype = True
        return v

    @property
    def shape(self):
        s = []
        d = self.data
        while isinstance(d, list):
            s.append(len(d))
            d = d[0] if d else None
        return tuple(s)

    def copy(self):
        def cp(d):
            return [cp(x) for x in d] if isinstance(d, list) else d
        r = Arr(cp(self.data))
        if self.int_dtype:
            r.int_dtype = True
        return r

    def flat(self):
        out = []

        def rec(d):
            if isinstance(d, list):
                for x in d:
                    rec(x)
            else:
                out.append(d)
        rec(self.data)
        return out

    def key(self):
        def k(d):
            return "[" + ",".join(k(x) for x in d) + "]" if isinstance(d, list) else vkey(d)
        base = self._opaque_base()
        return base if base is not None else k(self.data)

    def _opaque_base(self):
        """if every entry [i,j,..] is the atom `base[i,j,..]` of one opaque base, that base"""
        shape = self.shape
        if not shape or 0 in shape:
            return None
        base = None
        import itertools
        for idx in itertools.product(*[range(n) for n in shape]):
            d = self.data
            for i in idx:
                d = d[i]
            a = single_atom(d) if isinstance(d, Rat) else None
            if a is None:
                return None
            suffix = "[%s]" % ",".join(str(i) for i in idx)
            if not a.endswith(suffix):
                return None
            b = a[:-len(suffix)]
            if base is None:
                base = b
            elif base != b:
                return None
        return base

    def __repr__(self):
        return "Arr" + self.key()


from . import npext                      # noqa: E402  (numpy's array-programming vocabulary on Arr values)

FancyIndex = npext.IndexArray            # an index that is an array of integers of any rank (numpy integer-array indexing)


class NTuple(tuple):
    """a namedtuple value: a tuple whose items are also reachable as attributes"""

    def __new__(cls, name, fields, values, klass=None):
        t = tuple.__new__(cls, values)
        t.nt_name, t.nt_fields = name, tuple(fields)
        t.cls = klass           # the class statement that subclasses the named tuple (methods, properties), if any
        return t

    def __reduce__(self):
        return (NTuple, (self.nt_name, self.nt_fields, tuple(self), self.cls))


class ModNS(dict):
    """`globals()` of an analysed module: a name is looked up, when it is asked for, the way the module's own code would see it"""

    def __init__(self, ev):
        dict.__init__(self)
        self.ev = ev

    def _lookup(self, k):
        if not isinstance(k, str):
            raise KeyError(k)
        n_ = ast.Name(id=k, ctx=ast.Load())
        n_.lineno = n_.col_offset = 0
        try:
            return self.ev.e_Name(n_, {})
        except AnalysisError:
            raise KeyError(k)

    def __contains__(self, k):
        try:
            self._lookup(k)
            return True
        except KeyError:
            return False

    def __getitem__(self, k):
        return self._lookup(k)

    def get(self, k, default=None):
        try:
            return self._lookup(k)
        except KeyError:
            return default


class Obj:
    """a record with named attributes (atom entries, space-group objects)"""

    def __init__(self, name, **attrs):
        self.name = name
        self.attrs = dict(attrs)
        self.stores = []          # (attribute, value) written by the analysed code

    def key(self):
        return self.name

    def __repr__(self):
        return "Obj(%s)" % self.name


class Opaque:
    """a value known only by provenance; indexing yields atoms key[i,j]"""

    def __init__(self, key, shape=None, idx=()):
        self.base = key
        self.shape = shape
        self.idx = tuple(idx)

    def key(self):
        if self.idx:
            return "%s[%s]" % (self.base, ",".join(str(i) for i in self.idx))
        return self.base

    def __repr__(self):
        return "Opaque(%s)" % self.key()


def vkey(v):
    if isinstance(v, Rat):
        return v.key()
    if isinstance(v, (Arr, Opaque, Obj)):
        return v.key()
    if isinstance(v, dict):
        return "{" + ",".join("%s:%s" % (k, vkey(x)) for k, x in sorted(v.items(), key=lambda kv: repr(kv[0]))) + "}"
    if isinstance(v, tuple) and len(v) >= 2 and isinstance(v[0], str) and v[0] in TAGS and not isinstance(v, NTuple):
        # function-like values: by identity of what they denote (a closure's environment may contain the closure itself)
        if v[0] == "closure":
            return "closure@%s:%d" % (getattr(v[1], "name", "lambda"), getattr(v[1], "lineno", 0))
        if v[0] in ("boundmethod",):
            return "method@%s.%s" % (vkey(v[1]), getattr(v[2], "name", "?"))
        if v[0] == "partial":
            return "partial(%s;%s;%s)" % (vkey(v[1]), vkey(list(v[2])), vkey(v[3]))
        if v[0] == "pyfunc":
            return "pyfunc@%d" % id(v[1])
        return "%s:%s" % (v[0], v[1] if isinstance(v[1], str) else vkey(v[1]))
    if isinstance(v, (list, tuple)):
        if v and all(isinstance(x, Rat) for x in v):
            # a sequence holding exactly the entries base[0..n-1] of one opaque array is that array (tuple(cell), list(cell))
            base = Arr(list(v))._opaque_base()
            if base is not None:
                return base
        return "[" + ",".join(vkey(x) for x in v) + "]"
    return repr(v)


def scalar(v):
    """coerce a value to a scalar normal form"""
    if isinstance(v, Rat):
        return v
    if isinstance(v, bool):
        raise AnalysisError("E3: boolean used as a number")
    if isinstance(v, (int, float, Fraction)):
        return as_rat(v)
    if isinstance(v, Opaque):
        if v.shape is not None and len(v.idx) < len(v.shape):
            raise AnalysisError("E3: array %s used as a scalar" % v.key())
        return Rat.atom(v.key())
    if isinstance(v, Arr) and v.shape == ():
        return scalar(v.data)
    raise AnalysisError("E3: not a scalar: %r" % (v,))


def materialise(v):
    """Opaque with known shape -> Arr of atoms; list/tuple -> Arr"""
    if isinstance(v, Arr):
        return v
    if isinstance(v, Opaque):
        if v.shape is None:
            return None
        rest = v.shape[len(v.idx):]

        def build(idx, dims):
            if not dims:
                return Rat.atom(Opaque(v.base, v.shape, idx).key())
            return [build(idx + (i,), dims[1:]) for i in range(dims[0])]
        if not rest:
            return None
        return Arr(build(v.idx, rest))
    if isinstance(v, (list, tuple)):
        def conv(d):
            if isinstance(d, (list, tuple)):
                return [conv(x) for x in d]
            if isinstance(d, Arr):
                return d.copy().data
            if isinstance(d, Opaque):
                m = materialise(d)
                if m is not None:
                    return m.data
                return scalar(d)
            if isinstance(d, bool):
                return d          # a truth value (mask entry); counted as 0 / 1 by sums
            return scalar(d)
        return Arr(conv(v))
    return None


TAGS = ("npfunc", "function", "builtin", "import", "closure", "method", "module", "class", "boundmethod", "pyfunc", "regex", "rematch",
        "partial", "attrgetter", "enumclass", "classattr", "foreignclass", "propertyobj",
        "ntclass", "type", "typeobj")


def is_tagged(v):
    """internal representation of a function / module / type value (a tuple whose first item is a tag)"""
    return isinstance(v, tuple) and len(v) >= 2 and isinstance(v[0], str) and v[0] in TAGS and not isinstance(v, NTuple)


def dict_key(v):
    """hashable python key of a constant value (numbers as int / Fraction, tuples recursively)"""
    if isinstance(v, (str, bool)) or v is None:
        return v
    if isinstance(v, tuple):
        return tuple(dict_key(x) for x in v)
    if isinstance(v, Rat) and v.is_const():
        c = v.const_value()
        return int(c) if c.denominator == 1 else c
    if isinstance(v, int):
        return v
    return v


def const_int(v):
    if isinstance(v, bool):
        return None
    if isinstance(v, int):
        return v
    if isinstance(v, Rat) and v.is_const():
        c = v.const_value()
        if c.denominator == 1:
            return int(c)
    return None


class Undecided(AnalysisError):
    """a test that depends on data and has no answer (no policy, or the policy declined): distinct from an idiom the
    evaluator cannot read"""


class RaiseReached(AnalysisError):
    """the analysed path ends in a raise statement"""

    def __init__(self, node):
        AnalysisError.__init__(self, "E3: reached a raise statement on the analysed path (line %d)" % node.lineno)
        self.node = node


def raised_name(r):
    """the class name of the exception a RaiseReached ends in: the name written in the raise statement, or -- when the statement
    raises through a variable (`raise exc(msg)` in a helper that takes the class as an argument) -- the class bound to it"""
    if getattr(r, "resolved", None):
        return r.resolved
    exc = r.node.exc
    if exc is None:
        return None
    if isinstance(exc, ast.Call):
        exc = exc.func
    return getattr(exc, "id", getattr(exc, "attr", None))


_CONST_CACHE: dict = {}
HAZARDS = []       # (kind, function name, line, text) recorded by every Evaluator of the run


class NeedSign(Exception):
    """an undecided comparison on the analysed path: the sign of `expr` (canonical key `key`) is needed"""

    def __init__(self, key, expr, node=None):
        Exception.__init__(self, "sign of %s needed" % key)
        self.key = key
        self.expr = expr
        self.node = node


def canon_sign(d: Rat):
    """d = flip * (positive content) * prim with the leading coefficient of prim positive: sign(d) = flip * sign(prim)"""
    from .poly import _sorted_monos
    _content, _q, _ks, prim = split_content(d)
    flip = 1
    if prim.num:
        lead = prim.num[_sorted_monos(prim.num)[0]]
        if lead < 0:
            prim = -prim
            flip = -1
    return flip, prim


def special_angle(fname, q: Fraction):
    """exact cos / sin of q*pi for q a multiple of 1/12 with a closed form in sqrt(2), sqrt(3); None otherwise"""
    q = q % 2
    if (q * 12).denominator != 1:
        return None
    k = int(q * 12)                     # angle = k * 15 degrees
    if fname == "sin":
        k = (6 - k) % 24                # sin(t) = cos(pi/2 - t)
    k %= 24
    if k > 12:
        k = 24 - k                      # cos is even about pi
    sign = 1
    if k > 6:
        k, sign = 12 - k, -1            # cos(pi - t) = -cos t
    table = {0: Rat.const(1), 2: sqrt_of(Rat.const(3)) / 2, 3: sqrt_of(Rat.const(2)) / 2, 4: Rat.const(Fraction(1, 2)), 6: Rat.const(0)}
    if k not in table:
        return None
    return table[k] * sign


_PI = Fraction("3.14159265358979323846264338327950288419716939937510")


def pi_sign(d: Rat):
    """sign of a rational function of pi alone, or None when too close to zero to call"""
    lo, hi = _PI - Fraction(1, 10 ** 45), _PI + Fraction(1, 10 ** 45)
    try:
        vals = [d.subs({"pi": Rat.const(p)}) for p in (lo, hi)]
    except ZeroDivisionError:
        return None
    if not all(v.is_const() for v in vals):
        return None
    sg = [(v.const_value() > 0) - (v.const_value() < 0) for v in vals]
    return sg[0] if sg[0] == sg[1] and sg[0] != 0 else None


class SignOracle:
    """Trace partitioning over the signs of the expressions a path compares.  `assume` maps canonical keys to
    -1 / 0 / +1.  A comparison whose sign is neither assumed nor derivable (a monomial in atoms of assumed sign)
    raises NeedSign; enumerate_signs() then forks the run three ways."""

    def __init__(self, assume=None, fixed=None):
        self.assume = dict(assume or {})
        self.fixed = fixed                # callable(prim) -> sign | None: facts of the rule (positivity of a radius, ...)
        self.used = {}
        self.prims = {}                   # key -> the expression whose sign was assumed on this path
        self.asked = []                   # (difference, sign) in the order answered on this run

    def __call__(self, d, node=None):
        """sign of the difference d of a comparison"""
        if self.fixed is not None:
            s = self.fixed(d)
            if s is not None:
                return s
        s = angle_range_sign(d)          # principal-value angles against multiples of pi: decided by the range
        if s is not None:
            return s
        s = self.derive_shift(d)
        if s is not None:
            return s
        flip, prim = canon_sign(d)
        k = prim.key()
        if k in self.assume:
            self.used[k] = self.assume[k]
            self.prims[k] = prim
            self.asked.append((d, flip * self.assume[k]))
            return flip * self.assume[k]
        s = self.derive(prim)
        if s is not None:
            return flip * s
        raise NeedSign(k, prim, node)

    def derive_shift(self, d):
        """sign of d from an earlier answer about d0 = +-d + (a constant): `w > pi` was answered, `w - 2 pi <= -pi` is asked"""
        for d0, s0 in self.asked:
            for sgn in (1, -1):
                c = d - sgn * d0
                if c.is_const():
                    cs = (c.const_value() > 0) - (c.const_value() < 0)
                elif c.atoms() <= {"pi"}:
                    cs = pi_sign(c)
                    if cs is None:
                        continue
                else:
                    continue
                t0 = sgn * s0                       # sign of sgn*d0 ;  d = sgn*d0 + c
                if t0 == 0:
                    return cs
                if cs == 0 or cs == t0:
                    return t0
        return None

    def band(self, q, t, node=None):
        """is the quantity q below the small positive literal t?  One two-way question per (quantity, literal); answers for
        other literals of the same quantity carry over (inside a narrower band is inside a wider one)"""
        qk = q.key()
        pre = "band:%s:" % qk
        for k, v in self.assume.items():
            if k.startswith(pre):
                t2 = Fraction(k[len(pre):])
                if (v == 1 and t2 <= t) or (v == -1 and t2 >= t):
                    self.used[k] = v
                    return v == 1
        need = NeedSign("%s%s" % (pre, Fraction(t)), q, node)
        need.outcomes = (1, -1)
        raise need

    def derive(self, prim):
        if len(prim.num) != 1 or len(prim.den) != 1:
            return None
        sgn = 1
        for poly in (prim.num, prim.den):
            (m, c), = poly.items()
            if c < 0:
                sgn = -sgn
            for a, e in mono_items(m):
                k = Rat.atom(a).key()
                if k not in self.assume:
                    return None
                sa = self.assume[k]
                self.used[k] = sa
                if sa == 0:
                    return 0
                if e % 2:
                    sgn *= sa
        return sgn


def monomial_sign(d: Rat, atom_sign):
    """sign of d when it is (a constant times) a quotient of monomials in atoms whose signs atom_sign(atom) -> -1|0|1|None gives"""
    if len(d.num) != 1 or len(d.den) != 1:
        return None
    sgn = 1
    for poly in (d.num, d.den):
        (m, c), = poly.items()
        if c < 0:
            sgn = -sgn
        for a, e in mono_items(m):
            sa = atom_sign(a)
            if sa is None:
                return None
            if sa == 0:
                return 0
            if e % 2:
                sgn *= sa
    return sgn


def angle_range_sign(d: Rat):
    """sign of d = c*angle + r(pi) for one principal-value angle atom (arctan2 / arccos / arcsin / arctan) from its range,
    when the range decides it (e.g. arctan2(..) - pi <= 0 is answered 'not positive' only if strict: returns None at a tie)"""
    from .poly import ATOM_ARGS
    ang = [a for a in d.atoms() if a in ATOM_ARGS and ATOM_ARGS[a][0] in ("arctan2", "arccos", "arcsin", "arctan")]
    if len(ang) > 1 and d.atoms() <= set(ang) | {"pi"}:
        # several principal values: the sum of their ranges (the angles taken as independent -- a sound enclosure)
        from . import angles as _angles
        iv = _angles.interval(d)
        if iv is not None:
            if iv[0] >= 0 and iv[1] > 0:
                return 1
            if iv[1] <= 0 and iv[0] < 0:
                return -1
        return None
    if len(ang) != 1 or not (d.atoms() <= {ang[0], "pi"}):
        return None
    a = ang[0]
    lo, hi = {"arctan2": (-1, 1), "arccos": (0, 1), "arcsin": (Fraction(-1, 2), Fraction(1, 2)), "arctan": (Fraction(-1, 2), Fraction(1, 2))}[ATOM_ARGS[a][0]]
    signs = set()
    for end in (lo, hi):
        v = d.subs({a: Rat.atom("pi") * Rat.const(end)})
        if v.is_zero():
            signs.add(0)
            continue
        sg = pi_sign(v) if not v.is_const() else ((v.const_value() > 0) - (v.const_value() < 0))
        if sg is None:
            return None
        signs.add(sg)
    signs.discard(0)
    if len(signs) == 1:
        return signs.pop()      # weakly that sign on the whole range; the tie is the end point of the range
    return None


def enumerate_signs(run, max_paths=729, fixed=None):
    """run(oracle) is executed under every assignment of signs it demands; -> [(assumptions, result)]"""
    out = []
    stack = [{}]
    n = 0
    while stack:
        assume = stack.pop()
        o = SignOracle(assume, fixed)
        n += 1
        if n > 4 * max_paths:
            raise AnalysisError("E3: more than %d sign cases on the analysed paths" % max_paths)
        try:
            r = run(o)
        except NeedSign as need:
            for sg in getattr(need, "outcomes", (1, 0, -1)):
                stack.append(dict(assume, **{need.key: sg}))
            continue
        out.append((dict(assume), r))
        if len(out) > max_paths:
            raise AnalysisError("E3: more than %d sign cases on the analysed paths" % max_paths)
    return out


class _Return(Exception):
    def __init__(self, value):
        self.value = value


class _Break(Exception):
    pass


class _Continue(Exception):
    pass


EXCEPTION_NAMES = ("Exception", "BaseException", "ValueError", "TypeError", "KeyError", "IndexError", "AttributeError", "RuntimeError",
                   "NotImplementedError", "ZeroDivisionError", "ArithmeticError", "LookupError", "AssertionError", "OSError", "IOError",
                   "FileNotFoundError", "NameError", "StopIteration", "OverflowError", "FloatingPointError", "UnboundLocalError",
                   "ImportError", "UserWarning", "DeprecationWarning", "RuntimeWarning", "Warning", "FutureWarning")


def dtype_kind(v):
    """'float' | 'int' | 'bool' | 'complex' for a dtype argument, None if there is none, '?' if it is not recognised"""
    if v is None:
        return None
    name = None
    if isinstance(v, tuple) and len(v) == 2 and v[0] in ("builtin", "npfunc", "type", "typeobj") and isinstance(v[1], str):
        name = v[1]
    elif isinstance(v, str):
        name = v
    if name is None:
        return "?"
    name = name.lower().lstrip("<>=|")
    if name in ("bool", "bool_", "bool8", "?", "b1"):
        return "bool"
    if name in ("float", "double", "float64", "float32", "float16", "float_", "longdouble", "float128", "single", "half", "d", "f", "f8", "f4", "floating"):
        return "float"
    if name in ("int", "int64", "int32", "int16", "int8", "intp", "int_", "long", "longlong", "uint8", "uint16", "uint32", "uint64",
                "uint", "intc", "short", "i", "l", "i8", "i4", "i2", "i1", "u1", "u2", "u4", "u8", "integer"):
        return "int"
    if name in ("complex", "complex128", "complex64", "cdouble", "complex_", "c16", "c8"):
        return "complex"
    return "?"


ELEMENTWISE = {"cos", "sin", "tan", "exp", "arccos", "arcsin", "arctan", "sqrt", "abs", "absolute",
               "degrees", "radians", "square", "log", "round", "rint", "around", "floor", "ceil", "fix", "fabs"}


class Evaluator:
    def __new__(cls, *args, **kwargs):
        # one interpreter: `Evaluator(...)` builds the full one (classes, bound methods, exceptions, text: xfabsa/objeval.py) with
        # E3's conventions (assertions noted, not checked; unknown calls opaque).  Subclasses choose their own base.
        if cls is Evaluator:
            from .objeval import FullEvaluator
            return object.__new__(FullEvaluator)
        return object.__new__(cls)

    def __init__(self, mod, inline=True, branch_policy=None, call_policy=None, max_depth=14, import_policy=None,
                 sign_policy=None):
        self.mod = mod
        self.events = []                  # ordered (kind, name, [arg values]) of module / import / linalg calls on the path
        self.import_values = {}           # dotted imported name -> value (e.g. "xfab.CHECKS.activated": True)
        self.import_values_at_definition = None   # the same at import time: default arguments are evaluated then
        self.threshold_max = Fraction(1, 1000)   # literals up to this size are tolerances
        self.threshold_policy = None      # (quantity, small positive threshold, node) -> True (inside the band) | False | None
        self.sign_policy = sign_policy    # (canonical difference, node) -> -1 | 0 | 1 | None  (may raise NeedSign)
        self.inline = inline              # True: every module-level function; or a set of names
        self.branch_policy = branch_policy
        self.call_policy = call_policy    # (name, args, kwargs, node) -> value or NotImplemented
        self.import_policy = import_policy  # (dotted name, args, kwargs, node) -> value or NotImplemented
        self.max_depth = max_depth
        self.depth = 0
        self.trace = []                   # notes (asserts skipped, branches chosen)
        self.calls = []                   # (callee name, [arg keys]) of module-level calls seen
        self.np_log = []                  # (numpy function, [args], result) of opaque numpy calls (inv, qr, det, ...)
        self.hazards = []                 # dtype / aliasing hazards met on the analysed path

    # ------------------------------------------------- one evaluator per module whose code is run
    # one call depth for the whole family (a call may go through several modules and back)
    @property
    def depth(self):
        return (self.__dict__.get("_root") or self).__dict__.get("_depth", 0)

    @depth.setter
    def depth(self, v):
        (self.__dict__.get("_root") or self).__dict__["_depth"] = v

    # every other attribute (policies, logs, models, whatever state a rule's evaluator keeps) is the root's: read and written there
    def __getattr__(self, k):
        root = self.__dict__.get("_root")
        if root is not None and not k.startswith("__"):
            return getattr(root, k)
        raise AttributeError(k)

    def __setattr__(self, k, v):
        root = self.__dict__.get("_root")
        if root is not None and k not in self._OWN_KEYS:
            setattr(root, k, v)
        else:
            object.__setattr__(self, k, v)

    _OWN_KEYS = ("mod", "_root", "_depth", "_modconst", "_modconst_busy", "_family", "_home_evaluators", "_locals_stack", "_pre", "call_policy",
                 "inline", "depth", "current_fn")

    def evaluator_for(self, modobj):
        """the evaluator that runs code written in `modobj` (a function sees the globals of the module it is written in): this
        one for its own module; otherwise a member of this evaluator's family, which shares every policy, log and model with
        the root.  Inside a PRIVATE module every function is an implementation detail and is seen through, except the ones
        the root module imports back under the same name (those stay calls of the root's API: module_call); inside another
        public module a module-level call is, for the rule watching the importer, a call of `module.name`."""
        if modobj is None or modobj is self.mod or modobj.rel == self.mod.rel:
            return self
        root = getattr(self, "_root", None) or self
        if modobj.rel == root.mod.rel:
            root.depth = self.depth
            return root
        fam = root.__dict__.setdefault("_family", {})
        sub = fam.get(modobj.rel)
        if sub is None:
            sub = object.__new__(type(root))
            sub.__dict__["_root"] = root
            sub.mod = modobj
            sub.inline = True
            sub.current_fn = None
            fam[modobj.rel] = sub
            base = modobj.rel.rsplit("/", 1)[-1]
            if base.startswith("_") and not base.startswith("__"):
                sub.call_policy = None
            else:
                dotted_mod = modobj.rel[:-3].replace("/", ".")

                def forward(name, args, kwargs, node, dotted_mod=dotted_mod, root=root):
                    if root.import_policy is not None:
                        root.events.append(("import", "%s.%s" % (dotted_mod, name), list(args)))
                        return root.import_policy("%s.%s" % (dotted_mod, name), args, kwargs, node)
                    return NotImplemented
                sub.call_policy = forward
        for k, v in root.__dict__.items():
            # a method a rule replaced on its evaluator (ev._np_call = hook) is replaced for the whole family
            if k not in self._OWN_KEYS and hasattr(type(root), k):
                sub.__dict__[k] = v
        return sub

    def home_evaluator(self, node):
        """the evaluator for a function / class / lambda node (its defining module is recorded on the node when it is parsed)"""
        return self.evaluator_for(getattr(node, "_xmod", None))

    # ------------------------------------------------------------------ API
    def call_function(self, name, args, kwargs=None):
        fn = self.mod.func(name)
        return self._call_fn(fn, list(args), dict(kwargs or {}))

    def bind_signature(self, fn, args, kwargs, env, default_env=None, what="function"):
        """Python's binding of positional / keyword / *args / keyword-only / **kwargs parameters into env"""
        a = fn.args
        name = getattr(fn, "name", "<lambda>")
        params = [x.arg for x in list(getattr(a, "posonlyargs", [])) + list(a.args)]
        kwargs = dict(kwargs)
        if len(args) > len(params) and not a.vararg:
            raise AnalysisError("E3: too many arguments for %s %s" % (what, name))
        nd = len(a.defaults)

        def default(expr):
            return self.eval_default(expr) if default_env is None else self.eval(expr, default_env)
        for i, p in enumerate(params):
            if i < len(args):
                if p in kwargs:
                    raise AnalysisError("E3: argument %s of %s given twice" % (p, name))
                env[p] = args[i]
            elif p in kwargs:
                env[p] = kwargs.pop(p)
            else:
                j = i - (len(params) - nd)
                if j < 0:
                    raise AnalysisError("E3: missing argument %s of %s" % (p, name))
                env[p] = default(a.defaults[j])
        if a.vararg:
            env[a.vararg.arg] = tuple(args[len(params):])
        for k, d in zip(a.kwonlyargs, a.kw_defaults):
            if k.arg in kwargs:
                env[k.arg] = kwargs.pop(k.arg)
            elif d is not None:
                env[k.arg] = default(d)
            else:
                raise AnalysisError("E3: missing keyword argument %s of %s" % (k.arg, name))
        if a.kwarg:
            env[a.kwarg.arg] = kwargs
        elif kwargs:
            raise AnalysisError("E3: unknown keyword %s for %s" % (sorted(kwargs)[0], name))

    def _call_fn(self, fn, args, kwargs):
        home = self.home_evaluator(fn)
        if home is not self:
            return home._call_fn(fn, args, kwargs)
        if self.depth >= self.max_depth:
            raise AnalysisError("E3: inlining depth exceeded at %s" % fn.name)
        params = [a.arg for a in fn.args.args]
        for dec in fn.decorator_list:
            txt = unparse(dec)
            # memoising decorators return the function's own value (sharing of that value is the alias rule's business)
            if not any(k in txt for k in ("lru_cache", "functools.cache", "staticmethod")):
                raise AnalysisError("E3: %s is wrapped by the decorator `%s`" % (fn.name, txt[:60]))
        env = {}
        self.bind_signature(fn, list(args), kwargs, env)
        self.__dict__.setdefault("_locals_stack", []).append(local_names(fn))
        self.depth += 1
        prev = getattr(self, "current_fn", None)
        self.current_fn = fn.name
        gen = is_generator(fn)
        if gen:
            env["$yield"] = []
        try:
            self.exec_block(fn.body, env)
        except _Return as r:
            if not gen:
                return r.value
        finally:
            self.depth -= 1
            self.current_fn = prev
            self._locals_stack.pop()
        # a generator function is run to completion (its loops are static here): the caller gets the list of yielded values
        return env["$yield"] if gen else None

    def eval_default(self, expr):
        """a default argument: evaluated once, when the `def` is executed (import time for module-level functions)"""
        if self.import_values_at_definition is None:
            return self.eval(expr, {})
        cur = self.import_values
        self.import_values = self.import_values_at_definition
        try:
            return self.eval(expr, {})
        finally:
            self.import_values = cur

    def run_body(self, fn, env):
        """execute a function body in a caller-supplied environment; returns
        (return value, final environment)"""
        home = self.home_evaluator(fn)
        if home is not self:
            return home.run_body(fn, env)
        self.depth += 1
        ret = None
        try:
            self.exec_block(fn.body, env)
        except _Return as r:
            ret = r.value
        finally:
            self.depth -= 1
        return ret, env

    # ----------------------------------------------------------- statements
    def exec_block(self, stmts, env):
        for st in stmts:
            self.exec_stmt(st, env)

    def exec_stmt(self, st, env):
        if isinstance(st, ast.Expr):
            v = st.value
            if isinstance(v, ast.Constant):
                return
            if isinstance(v, ast.Yield):
                if "$yield" not in env:
                    raise AnalysisError("E3: yield outside a generator function (line %d)" % st.lineno)
                env["$yield"].append(self.eval(v.value, env) if v.value is not None else None)
                return
            if isinstance(v, ast.YieldFrom):
                seq = self.eval(v.value, env)
                if isinstance(seq, Arr):
                    seq = [Arr(x) if isinstance(x, list) else x for x in seq.data]
                if not isinstance(seq, (list, tuple)):
                    raise AnalysisError("E3: yield from a value that is not a sequence (line %d)" % st.lineno)
                env["$yield"].extend(seq)
                return
            if isinstance(v, ast.Call):
                f = v.func
                if isinstance(f, ast.Attribute) and isinstance(f.value, ast.Name) and f.value.id == "logger":
                    return
                if isinstance(f, ast.Name) and f.id == "print":
                    return
                if isinstance(f, ast.Attribute) and f.attr == "append" and len(v.args) == 1:
                    tgt = self.eval(f.value, env)
                    if not isinstance(tgt, list):
                        raise AnalysisError("E3: append on a non-list (line %d)" % st.lineno)
                    tgt.append(self.eval(v.args[0], env))
                    return
                self.eval(v, env)      # evaluated for its effects on the call log
                return
            raise AnalysisError("E3: unsupported expression statement line %d" % st.lineno)
        if isinstance(st, ast.AnnAssign):
            if st.value is not None:
                self.assign(st.target, self.eval(st.value, env), env)
            return
        if isinstance(st, ast.Assign):
            val = self.eval(st.value, env)
            for t in st.targets:
                self.assign(t, val, env)
            return
        if isinstance(st, ast.AugAssign):
            cur = self.eval(st.target, env)
            val = self.binop(st.op, cur, self.eval(st.value, env), st)
            self.assign(st.target, val, env)
            return
        if isinstance(st, ast.Return):
            raise _Return(self.eval(st.value, env) if st.value is not None else None)
        if isinstance(st, ast.Pass):
            return
        if isinstance(st, ast.Assert):
            self.trace.append(("assert", unparse(st.test)))
            # what the assertion bounds, by value: `|quantity| < small constant` is recorded as (quantity, constant)
            saved_ = (self.threshold_policy, getattr(self, "threshold_max", None))
            seen_ = []
            try:
                self.threshold_policy = lambda q_, t_, n_: (seen_.append((q_, t_)), True)[1]
                self.threshold_max = Fraction(1, 100)
                try:
                    self.eval(st.test, dict(env))
                except (AnalysisError, NeedSign, RaiseReached):
                    pass
                except Exception:
                    pass
            finally:
                self.threshold_policy, self.threshold_max = saved_[0], (saved_[1] if saved_[1] is not None else self.threshold_max)
            for q_, t_ in seen_:
                self.trace.append(("assert-band", q_, t_))
            return
        if isinstance(st, ast.If):
            c = self.decide(st.test, env)
            self.exec_block(st.body if c else st.orelse, env)
            return
        if isinstance(st, ast.For):
            it = self.eval(st.iter, env)
            if is_tagged(it):
                it = self.iterate_tagged(it, st.iter)
            if isinstance(it, Opaque) and materialise(it) is not None:
                it = materialise(it)
            if isinstance(it, Arr):
                it = [Arr(x) if isinstance(x, list) else x for x in it.data]
            if isinstance(it, dict):
                it = list(it)
            if not isinstance(it, (list, tuple, range)):
                raise AnalysisError("E3: loop over a non-constant iterable (line %d)" % st.lineno)
            if len(it) > 256:
                raise AnalysisError("E3: loop too long to unroll (line %d)" % st.lineno)
            for x in it:
                self.assign(st.target, x if not isinstance(x, int) or isinstance(x, bool) else Rat.const(x), env)
                try:
                    self.exec_block(st.body, env)
                except _Break:
                    break
                except _Continue:
                    continue
            else:
                self.exec_block(st.orelse, env)
            return
        if isinstance(st, ast.While):
            # a loop whose test folds on every round (counting down a rank, scanning a static table)
            for _round in range(10000):
                if not self.decide(st.test, env):
                    self.exec_block(st.orelse, env)
                    return
                try:
                    self.exec_block(st.body, env)
                except _Break:
                    return
                except _Continue:
                    continue
            raise AnalysisError("E3: while loop does not terminate within 10000 rounds (line %d)" % st.lineno)
        if isinstance(st, ast.Break):
            raise _Break()
        if isinstance(st, ast.Continue):
            raise _Continue()
        if isinstance(st, ast.Raise):
            err_ = RaiseReached(st)
            tgt_ = st.exc.func if isinstance(st.exc, ast.Call) else st.exc
            if isinstance(tgt_, ast.Name) and tgt_.id in env and isinstance(env[tgt_.id], tuple) and len(env[tgt_.id]) == 2 \
                    and env[tgt_.id][0] in ("builtin", "type", "typeobj") and env[tgt_.id][1] in EXCEPTION_NAMES:
                err_.resolved = env[tgt_.id][1]           # `raise exc(msg)` with exc a parameter bound to an exception class
            raise err_
        if isinstance(st, ast.Import):
            for a in st.names:
                env[a.asname or a.name.split(".")[0]] = ("import", a.name if a.asname else a.name.split(".")[0])
            return
        if isinstance(st, ast.ImportFrom):
            for a in st.names:
                env[a.asname or a.name] = ("import", "%s.%s" % (st.module, a.name))
            return
        if isinstance(st, ast.FunctionDef) and not st.decorator_list:
            env[st.name] = ("closure", st, env)
            return
        raise AnalysisError("E3: unsupported statement %s (line %d)" % (type(st).__name__, st.lineno))

    def decide(self, test, env):
        if self.branch_policy is not None:
            r = self.branch_policy(test, self, env)
            if r is not None:
                self.trace.append(("branch-policy", unparse(test), bool(r)))
                return bool(r)
        v = self.eval(test, env)
        if isinstance(v, bool):
            return v
        if v is None:
            return False
        if isinstance(v, Rat) and v.is_const():
            return v.const_value() != 0
        raise Undecided("E3: branch `%s` does not fold to a constant (line %d)"
                        % (unparse(test)[:60], test.lineno))

    def assign(self, target, val, env):
        if isinstance(target, ast.Name):
            env[target.id] = val
            return
        if isinstance(target, (ast.Tuple, ast.List)):
            seq = val
            if isinstance(seq, Arr):
                seq = [Arr(x) if isinstance(x, list) else x for x in seq.data]      # rows of an array are arrays
            if isinstance(seq, Opaque):
                m = materialise(seq)
                seq = m.data if m is not None else [Opaque(seq.base, seq.shape, seq.idx + (i,))
                                                     for i in range(len(target.elts))]
            if isinstance(seq, dict):
                seq = list(seq)
            stars = [i for i, e in enumerate(target.elts) if isinstance(e, ast.Starred)]
            if len(stars) == 1 and isinstance(seq, (list, tuple)) and len(seq) >= len(target.elts) - 1:
                # head, *middle, tail = sequence
                k = stars[0]
                after = len(target.elts) - k - 1
                seq = list(seq)
                for t, v in zip(target.elts[:k], seq[:k]):
                    self.assign(t, v, env)
                self.assign(target.elts[k].value, seq[k:len(seq) - after], env)
                for t, v in zip(target.elts[k + 1:], seq[len(seq) - after:] if after else []):
                    self.assign(t, v, env)
                return
            if not isinstance(seq, (list, tuple)) or len(seq) != len(target.elts):
                raise AnalysisError("E3: cannot unpack (line %d)" % target.lineno)
            for t, v in zip(target.elts, seq):
                self.assign(t, v, env)
            return
        if isinstance(target, ast.Attribute):
            base = self.eval(target.value, env)
            if isinstance(base, Obj):
                base.attrs[target.attr] = val
                base.stores.append((target.attr, val))
                return
            raise AnalysisError("E3: attribute store on %r (line %d)" % (type(base).__name__, target.lineno))
        if isinstance(target, ast.Subscript):
            base = self.eval(target.value, env)
            idx = self.index_of(target.slice, env)
            if isinstance(base, list):
                if len(idx) != 1 or not isinstance(idx[0], int):
                    raise AnalysisError("E3: unsupported list store (line %d)" % target.lineno)
                base[idx[0]] = val
                return
            if isinstance(base, Arr):
                if base.int_dtype:
                    # an array built from integer-typed items only: what is stored is converted to its integer type
                    def trunc_(d_):
                        if isinstance(d_, Arr):
                            return Arr(trunc_(d_.data))
                        if isinstance(d_, (list, tuple)):
                            return [trunc_(e_) for e_ in d_]
                        if isinstance(d_, IRat) or isinstance(d_, bool):
                            return d_
                        if isinstance(d_, Opaque):
                            m_ = materialise(d_)
                            if m_ is None:
                                raise AnalysisError("E3: store of an array of unknown shape into an integer array (line %d)" % target.lineno)
                            return Arr(trunc_(m_.data))
                        x_ = scalar(d_)
                        if x_.is_const():
                            import math as _m
                            return iconst(_m.trunc(x_.const_value()))
                        rec_ = ("int-store", getattr(self, "current_fn", "?"), target.lineno,
                                "`%s = ...` stores a real value into an array of integer type: it is truncated" % unparse(target))
                        if rec_ not in self.hazards:
                            self.hazards.append(rec_)
                        return self.apply_unary("fix", x_, target)
                    val = trunc_(val)
                if base.inherits_dtype:
                    rec = ("dtype", getattr(self, "current_fn", "?"), target.lineno,
                           "in-place store `%s = ...` into an array created from the caller's data without dtype=float: "
                           "integer input makes it an integer array and the stored floats are truncated" % unparse(target))
                    self.hazards.append(rec)
                    HAZARDS.append(rec)
                if base.root is not None:
                    self.store_general(base, idx, val, target)
                    return
                if any(not isinstance(i, int) or isinstance(i, FancyIndex) for i in idx[:-1]) or idx[-1] is None \
                        or isinstance(idx[-1], FancyIndex) or (isinstance(idx[-1], slice) and any(isinstance(x_, list) for x_ in base.data)):
                    self.store_general(base, idx, val, target)
                    return
                d = base.data
                try:
                    for i in idx[:-1]:
                        d = d[i]
                    if isinstance(idx[-1], int):
                        d[idx[-1]]
                except IndexError:
                    self.index_error(target)
                last = idx[-1]
                if isinstance(last, int):
                    if isinstance(d[last], list):
                        m = materialise(val) if not isinstance(val, Arr) else val
                        if m is None or m.shape != Arr(d[last]).shape:
                            raise AnalysisError("E3: row store of incompatible shape (line %d)" % target.lineno)
                        d[last] = m.copy().data
                    else:
                        d[last] = scalar(val)
                    return
                if isinstance(last, slice) and all(not isinstance(x, list) for x in d):
                    rng = range(*last.indices(len(d)))
                    m = val if isinstance(val, Arr) else materialise(val)
                    if m is not None and m.shape == (len(rng),):
                        for k, i in enumerate(rng):
                            d[i] = scalar(m.data[k])
                        return
                    if m is None:
                        sc = scalar(val)
                        for i in rng:
                            d[i] = sc
                        return
                raise AnalysisError("E3: unsupported array store (line %d)" % target.lineno)
            raise AnalysisError("E3: store into %r unsupported (line %d)" % (type(base).__name__, target.lineno))
        raise AnalysisError("E3: unsupported assignment target (line %d)" % target.lineno)

    def index_error(self, node):
        raise AnalysisError("E3: index out of range (line %d)" % getattr(node, "lineno", 0))

    def store_general(self, base, idx, val, target):
        """base[idx] = val for any mix of integers, slices and newaxis: the selected positions are computed by indexing an
        array of index paths, the value is broadcast over them (numpy alignment of trailing dimensions)"""
        def paths(d, pre):
            return [paths(x, pre + (i,)) for i, x in enumerate(d)] if isinstance(d, list) else pre

        def take(d, ix):
            if not ix:
                return d
            i = ix[0]
            if i is None:
                return [take(d, ix[1:])]
            if not isinstance(d, list):
                raise AnalysisError("E3: too many indices in a store (line %d)" % target.lineno)
            if isinstance(i, FancyIndex):
                try:
                    return [take(d[k_], ix[1:]) for k_ in i]
                except IndexError:
                    raise AnalysisError("E3: index out of range in a store (line %d)" % target.lineno)
            if isinstance(i, int):
                try:
                    return take(d[i], ix[1:])
                except IndexError:
                    raise AnalysisError("E3: index out of range in a store (line %d)" % target.lineno)
            return [take(x, ix[1:]) for x in d[i]]

        def rank(d):
            r = 0
            while isinstance(d, list):
                r += 1
                d = d[0] if d else None
            return r
        # a view stores into the array it shares its memory with
        root = base.root if base.root is not None else base
        own = base.paths if base.root is not None else paths(base.data, ())
        if any(isinstance(i_, FancyIndex) for i_ in idx):
            def bad(msg):
                raise AnalysisError("E3: %s in a store (line %d)" % (msg, target.lineno))
            sel = npext.advanced_index(own, idx, bad)
        else:
            sel = take(own, list(idx))
        if isinstance(val, Arr):
            v = val.data
        elif isinstance(val, (Opaque, list, tuple)):
            m = materialise(val)
            v = m.data if m is not None else scalar(val)
        else:
            v = val

        def put(path, x):
            d = root._data
            for i in path[:-1]:
                d = d[i]
            if isinstance(d[path[-1]], list):
                raise AnalysisError("E3: store of a scalar over a sub-array (line %d)" % target.lineno)
            d[path[-1]] = scalar(x)

        def rec(sl, x):
            if isinstance(sl, tuple):
                if isinstance(x, list):
                    if len(x) != 1:
                        raise AnalysisError("E3: store of incompatible shape (line %d)" % target.lineno)
                    return rec(sl, x[0])
                return put(sl, x)
            if isinstance(x, list) and rank(x) == rank(sl):
                if len(x) == len(sl):
                    for a_, b_ in zip(sl, x):
                        rec(a_, b_)
                elif len(x) == 1:
                    for a_ in sl:
                        rec(a_, x[0])
                else:
                    raise AnalysisError("E3: store of incompatible shape (line %d)" % target.lineno)
                return
            if isinstance(x, list) and rank(x) > rank(sl):
                raise AnalysisError("E3: store of incompatible shape (line %d)" % target.lineno)
            for a_ in sl:
                rec(a_, x)
        rec(sel, v)

    # ---------------------------------------------------------- expressions
    def index_of(self, sl, env):
        """-> tuple of int | slice | None (newaxis) | FancyIndex (integer index array of any rank; a boolean mask is replaced by
        the index arrays of its true positions, as numpy does)"""
        def index_array(v, where):
            """value -> list of FancyIndex (one, or one per axis of a mask) | None if v is not an index array"""
            if isinstance(v, Arr):
                d = v.data
            elif isinstance(v, (list, tuple)) and not is_tagged(v) and not isinstance(v, NTuple):
                m_ = None
                try:
                    m_ = materialise(v)
                except AnalysisError:
                    return None
                d = m_.data if m_ is not None else None
            else:
                return None
            if not isinstance(d, list):
                return None
            flat = npext.nd_flat(d)
            if not npext.nd_regular(d):
                return None
            if flat and all(isinstance(x_, bool) for x_ in flat):
                def bad(msg):
                    raise AnalysisError("E3: mask index: %s (line %d)" % (msg, where.lineno))
                return npext.mask_to_indices(d, bad)
            if all(not isinstance(x_, bool) and const_int(x_) is not None for x_ in flat):
                return [FancyIndex(npext.nd_map(const_int, d))]
            return None
        elts = sl.elts if isinstance(sl, ast.Tuple) else [sl]
        if not isinstance(sl, (ast.Tuple, ast.Slice)):
            v0 = self.eval(sl, env)
            if isinstance(v0, tuple) and not (v0 and isinstance(v0[0], str)):
                # a tuple VALUE used as index is a multi-dimensional index (a list would be integer-array indexing)
                out = []
                for x_ in v0:
                    if x_ is None or x_ == ("npfunc", "newaxis"):
                        out.append(None)
                        continue
                    if isinstance(x_, slice):
                        out.append(x_)
                        continue
                    ia_ = index_array(x_, sl)
                    if ia_ is not None:
                        out.extend(ia_)       # one index array per axis
                        continue
                    i_ = const_int(x_)
                    if i_ is None:
                        raise AnalysisError("E3: non-constant index `%s` (line %d)" % (unparse(sl), sl.lineno))
                    out.append(i_)
                return tuple(out)
            self.hand_down(sl, v0)
        out = []
        for e in elts:
            if isinstance(e, ast.Slice):
                lo = const_int(self.eval(e.lower, env)) if e.lower is not None else None
                hi = const_int(self.eval(e.upper, env)) if e.upper is not None else None
                stp = const_int(self.eval(e.step, env)) if e.step is not None else None
                out.append(slice(lo, hi, stp))
            else:
                v = self.eval(e, env)
                if v is None or v == ("npfunc", "newaxis"):
                    out.append(None)
                    continue
                if isinstance(v, slice):
                    out.append(v)
                    continue
                if isinstance(v, (Arr, list)) or (isinstance(v, tuple) and isinstance(sl, ast.Tuple)):
                    ia_ = index_array(v, e)
                    if ia_ is not None:
                        out.extend(ia_)
                        continue
                i = const_int(v)
                if i is None:
                    if isinstance(v, bool):
                        raise AnalysisError("E3: truth value used as an index `%s` (line %d)" % (unparse(e), e.lineno))
                    raise AnalysisError("E3: non-constant index `%s` (line %d)" % (unparse(e), e.lineno))
                out.append(i)
        return tuple(out)

    def subscript(self, base, idx, node):
        if isinstance(base, str):
            if len(idx) == 1:
                try:
                    return base[idx[0]]
                except IndexError:
                    raise AnalysisError("E3: string index out of range (line %d)" % node.lineno)
        if isinstance(base, (list, tuple)):
            if len(idx) == 1:
                try:
                    return base[idx[0]]
                except IndexError:
                    raise AnalysisError("E3: index out of range (line %d)" % node.lineno)
            base = materialise(base)
        if isinstance(base, Arr) and any(isinstance(i_, FancyIndex) for i_ in idx):
            def bad(msg):
                raise AnalysisError("E3: %s (line %d)" % (msg, node.lineno))
            r_ = npext.advanced_index(base.data, idx, bad)
            return Arr(r_) if isinstance(r_, list) else r_
        if isinstance(base, Arr):
            def take(d, idx):
                if not idx:
                    return d
                i = idx[0]
                if i is None:
                    return [take(d, idx[1:])]
                if not isinstance(d, list):
                    raise AnalysisError("E3: too many indices (line %d)" % node.lineno)
                if isinstance(i, FancyIndex):
                    try:
                        return [take(d[k_], idx[1:]) for k_ in i]
                    except IndexError:
                        raise AnalysisError("E3: index out of range (line %d)" % node.lineno)
                if isinstance(i, int):
                    try:
                        return take(d[i], idx[1:])
                    except IndexError:
                        raise AnalysisError("E3: index out of range (line %d)" % node.lineno)
                return [take(x, idx[1:]) for x in d[i]]
            r = take(base.data, list(idx))
            if isinstance(r, list) and not any(isinstance(i_, FancyIndex) for i_ in idx):
                # basic indexing: the result shares its memory with `base` (numpy view); stores into it reach `base`
                def paths_(d_, pre_):
                    return [paths_(x_, pre_ + (k_,)) for k_, x_ in enumerate(d_)] if isinstance(d_, list) else pre_
                return Arr.view(base, take(paths_(base.data, ()), list(idx)))
            return Arr(r) if isinstance(r, list) else r
        if isinstance(base, Opaque):
            if all(isinstance(i, int) and not isinstance(i, bool) for i in idx):
                o = Opaque(base.base, base.shape, base.idx + tuple(idx))
                if base.shape is not None:
                    if len(o.idx) > len(base.shape):
                        raise AnalysisError("E3: too many indices for %s (line %d)" % (base.key(), node.lineno))
                    for i, n in zip(o.idx, base.shape):
                        if not (-n <= i < n):
                            raise AnalysisError("E3: index out of range for %s (line %d)" % (base.key(), node.lineno))
                    o.idx = tuple(i % n for i, n in zip(o.idx, base.shape))
                    if len(o.idx) == len(base.shape):
                        return Rat.atom(o.key())
                return o
            m = materialise(base)
            if m is None:
                raise AnalysisError("E3: slice of an array of unknown shape %s (line %d)" % (base.key(), node.lineno))
            return self.subscript(m, idx, node)
        raise AnalysisError("E3: subscript of %s (line %d)" % (type(base).__name__, node.lineno))

    def eval(self, node, env):
        if node is None:
            return None
        pre = self.__dict__.get("_pre")
        if pre and id(node) in pre:
            return pre.pop(id(node))        # handed down by a sub-evaluator that already evaluated this node
        m = getattr(self, "e_" + type(node).__name__, None)
        if m is None:
            raise AnalysisError("E3: unsupported expression %s (line %d)" % (type(node).__name__, node.lineno))
        return m(node, env)

    def e_Constant(self, node, env):
        v = node.value
        if isinstance(v, bool) or v is None or isinstance(v, str):
            return v
        if isinstance(v, int):
            return iconst(v)
        if isinstance(v, float):
            return as_rat(v)
        raise AnalysisError("E3: constant %r" % (v,))

    def e_Name(self, node, env):
        if node.id in env:
            return env[node.id]
        if node.id in self.mod.np_alias:
            return ("module", "numpy")
        if node.id in self.mod.functions:
            return ("function", node.id, self.mod.rel)
        if node.id in ("True", "False", "None"):
            return {"True": True, "False": False, "None": None}[node.id]
        if node.id in self.mod.imports:
            if self.mod.imports[node.id] in self.import_values:
                return self.import_values[self.mod.imports[node.id]]
            v_ = self.resolve_constant(self.mod.imports[node.id])
            if v_ is not None:
                return v_
            return ("import", self.mod.imports[node.id])
        if node.id == "__debug__":
            return True
        if node.id in getattr(self.mod, "assigns", {}):
            return self.module_constant(node.id)
        if node.id in ("bool", "str", "float", "int") and getattr(self, "_type_context", False):
            return ("type", node.id)
        if node.id in ("range", "len", "abs", "float", "int", "list", "tuple", "min", "max", "sum", "zip", "enumerate",
                       "reversed", "sorted", "all", "any", "round", "isinstance", "str", "bool", "dict", "map", "filter",
                       "divmod", "next", "iter"):
            return ("builtin", node.id)
        if node.id in EXCEPTION_NAMES:
            return ("builtin", node.id)            # an exception class handed around as a value (exc=ValueError)
        if node.id in ("bytes", "complex", "set", "frozenset", "type", "object", "callable", "hasattr", "getattr", "bytearray", "memoryview"):
            return ("builtin", node.id)
        if node.id == "__name__":
            return self.mod.rel[:-3].replace("/", ".")
        raise AnalysisError("E3: unbound name %s (line %d)" % (node.id, node.lineno))

    def module_constant(self, name):
        """a module-level `NAME = expression` evaluated in the module scope (memoised per evaluator; a fresh copy of
        mutable values is handed out so that one analysed call cannot leak stores into another)"""
        cache = self.__dict__.setdefault("_modconst", {})
        dotted = "%s.%s" % (self.mod.rel[:-3].replace("/", "."), name)
        if name not in cache and dotted in (self.import_values or {}):
            # the table a check models for importers of this module is the same table inside the module
            return self.import_values[dotted]
        if name not in cache:
            if name in self.__dict__.setdefault("_modconst_busy", set()):
                raise AnalysisError("E3: module constant %s is defined in terms of itself" % name)
            self._modconst_busy.add(name)
            try:
                chain = getattr(self.mod, "assign_chain", {}).get(name) or [self.mod.assigns[name]]
                val = None
                for k, st in enumerate(chain):
                    # a later binding may be written in terms of the earlier one (NAME = f(NAME); NAME += ...)
                    env0 = {name: val} if k else {}
                    if isinstance(st, ast.AugAssign):
                        val = self.binop(st.op, val, self.eval(st.value, env0), st)
                    elif k and not any(isinstance(x, ast.Name) and x.id == name for x in ast.walk(st.value)):
                        val = self.eval(st.value, {})
                    else:
                        if not k and any(isinstance(x, ast.Name) and x.id == name for x in ast.walk(st.value)):
                            raise AnalysisError("E3: module constant %s is defined in terms of itself" % name)
                        val = self.eval(st.value, env0)
                cache[name] = val
            finally:
                self._modconst_busy.discard(name)
        v = cache[name]
        return v.copy() if isinstance(v, Arr) else v

    def _display(self, elts, env):
        out = []
        for e in elts:
            if isinstance(e, ast.Starred):
                out.extend(self.as_sequence(self.eval(e.value, env), e))
            else:
                out.append(self.eval(e, env))
        return out

    def e_List(self, node, env):
        return self._display(node.elts, env)

    def e_Tuple(self, node, env):
        return tuple(self._display(node.elts, env))

    def e_Set(self, node, env):
        # a set display: kept as a list without repetitions (membership and iteration are all the analysed code does with it)
        out, seen = [], set()
        for v in self._display(node.elts, env):
            k = vkey(v)
            if k not in seen:
                seen.add(k)
                out.append(v)
        return out

    def e_SetComp(self, node, env):
        out, seen = [], set()
        for e in self._comp_envs(node.generators, env):
            v = self.eval(node.elt, e)
            k = vkey(v)
            if k not in seen:
                seen.add(k)
                out.append(v)
        return out

    def e_NamedExpr(self, node, env):
        v = self.eval(node.value, env)
        self.assign(node.target, v, env)
        return v

    def e_JoinedStr(self, node, env):
        parts = []
        for v in node.values:
            if isinstance(v, ast.Constant) and isinstance(v.value, str):
                parts.append(v.value)
                continue
            if isinstance(v, ast.FormattedValue) and v.format_spec is None and v.conversion in (-1, 115):
                x = self.eval(v.value, env)
                if isinstance(x, str):
                    parts.append(x)
                    continue
                if isinstance(x, IRat):
                    parts.append(str(int(x.const_value())))
                    continue
            # the text of a value that is not a constant (a message about an argument): an opaque text
            return Opaque("text(%s)" % unparse(node)[:60])
        return "".join(parts)

    def e_UnaryOp(self, node, env):
        v = self.eval(node.operand, env)
        if isinstance(node.op, ast.USub):
            return self.binop(ast.Mult(), iconst(-1) if isinstance(v, IRat) else Rat.const(-1), v, node)
        if isinstance(node.op, ast.UAdd):
            return v
        if isinstance(node.op, ast.Not):
            if isinstance(v, bool):
                return not v
        if isinstance(node.op, ast.Invert):
            if isinstance(v, bool):
                raise AnalysisError("E3: `~` of a python truth value is an integer, not its negation (line %d)" % node.lineno)
            if isinstance(v, Arr) and v.flat() and all(isinstance(x_, bool) for x_ in v.flat()):
                return Arr(npext.nd_map(lambda x_: not x_, v.data))
        raise AnalysisError("E3: unsupported unary operator (line %d)" % node.lineno)

    def e_BinOp(self, node, env):
        return self.binop(node.op, self.eval(node.left, env), self.eval(node.right, env), node)

    def binop(self, op, a, b, node):
        if isinstance(op, ast.Mult) and isinstance(a, (list, str, tuple)) and const_int(b) is not None and not isinstance(b, Arr):
            return a * const_int(b)
        if isinstance(op, ast.Mult) and isinstance(b, (list, str, tuple)) and const_int(a) is not None and not isinstance(a, Arr):
            return b * const_int(a)
        if isinstance(op, ast.Mod) and isinstance(a, str):
            vals = b if isinstance(b, tuple) else (b,)
            conv = []
            for v in vals:
                ci = const_int(v)
                conv.append(ci if ci is not None else v)
            if all(isinstance(v, (int, str)) for v in conv):
                try:
                    return a % tuple(conv)
                except (TypeError, ValueError):
                    pass
            raise AnalysisError("E3: string formatting with a non-constant (line %d)" % getattr(node, "lineno", 0))
        if isinstance(op, ast.Add) and isinstance(a, str) and isinstance(b, str):
            return a + b
        if isinstance(op, ast.Add) and isinstance(a, (list, tuple)) and isinstance(b, (list, tuple)) and type(a) is type(b):
            return a + b                    # python sequences concatenate (numpy arrays are Arr / Opaque)
        if isinstance(op, ast.MatMult):
            return self.np_matmul(a, b, node)
        if isinstance(op, (ast.BitAnd, ast.BitOr, ast.BitXor)):
            def mask_(v_):
                if isinstance(v_, bool):
                    return v_
                if isinstance(v_, Arr) and all(isinstance(x_, bool) for x_ in v_.flat()):
                    return v_.data
                if isinstance(v_, list) and v_ and all(isinstance(x_, bool) for x_ in npext.nd_flat(v_)):
                    return v_
                return None
            ma_, mb_ = mask_(a), mask_(b)
            if ma_ is None or mb_ is None:
                raise AnalysisError("E3: `%s` on values that are not truth values / masks (line %d)"
                                    % ({ast.BitAnd: "&", ast.BitOr: "|", ast.BitXor: "^"}[type(op)], getattr(node, "lineno", 0)))
            f_ = {ast.BitAnd: lambda x_, y_: x_ and y_, ast.BitOr: lambda x_, y_: x_ or y_, ast.BitXor: lambda x_, y_: x_ != y_}[type(op)]
            sa_, sb_ = npext.nd_shape(ma_), npext.nd_shape(mb_)

            def bad_(msg):
                raise AnalysisError("E3: %s (line %d)" % (msg, getattr(node, "lineno", 0)))
            S_ = npext.broadcast_shapes([sa_, sb_], bad_)
            if not S_:
                return f_(ma_, mb_)
            return Arr(npext.nd_build(S_, lambda ix: f_(npext.broadcast_get(ma_, sa_, ix) if sa_ else ma_,
                                                        npext.broadcast_get(mb_, sb_, ix) if sb_ else mb_)))
        # Python booleans are the integers 0 and 1 in arithmetic
        if isinstance(a, bool):
            a = Rat.const(int(a))
        if isinstance(b, bool):
            b = Rat.const(int(b))
        A = a if isinstance(a, Arr) else (materialise(a) if isinstance(a, (Opaque, list, tuple)) else None)
        B = b if isinstance(b, Arr) else (materialise(b) if isinstance(b, (Opaque, list, tuple)) else None)
        if (isinstance(a, Opaque) and A is None and a.shape is None and isinstance(b, (Arr,))) or \
           (isinstance(b, Opaque) and B is None and b.shape is None and isinstance(a, (Arr,))):
            raise AnalysisError("E3: arithmetic between an array and a value of unknown shape (line %d)"
                                % getattr(node, "lineno", 0))
        if A is not None or B is not None:
            if isinstance(a, Opaque) and A is None:
                a = scalar(a)
            if isinstance(b, Opaque) and B is None:
                b = scalar(b)
            return self.elementwise(op, A if A is not None else a, B if B is not None else b, node)
        x, y = scalar(a), scalar(b)
        return self.scalar_op(op, x, y, node)

    def scalar_op(self, op, x, y, node):
        try:
            if isinstance(x, IRat) and isinstance(y, IRat) and isinstance(op, (ast.Add, ast.Sub, ast.Mult)):
                return as_int_typed(x + y if isinstance(op, ast.Add) else x - y if isinstance(op, ast.Sub) else x * y)
            if isinstance(op, ast.Add):
                return x + y
            if isinstance(op, ast.Sub):
                return x - y
            if isinstance(op, ast.Mult):
                return x * y
            if isinstance(op, ast.Div):
                return x / y
            if isinstance(op, ast.Pow):
                if y.is_const():
                    e = y.const_value()
                    if e.denominator == 1:
                        return x ** int(e)
                    if e == Fraction(1, 2):
                        return sqrt_of(x)
                if x.is_const() and y.is_const():
                    pass
                raise AnalysisError("E3: unsupported exponent %s (line %d)" % (y.key(), getattr(node, "lineno", 0)))
            if isinstance(op, ast.Mod) and x.is_const() and y.is_const():
                return Rat.const(x.const_value() % y.const_value())
            if isinstance(op, ast.FloorDiv) and x.is_const() and y.is_const():
                return Rat.const(x.const_value() // y.const_value())
        except ZeroDivisionError:
            raise AnalysisError("E3: division by zero normal form (line %d)" % getattr(node, "lineno", 0))
        raise AnalysisError("E3: unsupported operator %s (line %d)" % (type(op).__name__, getattr(node, "lineno", 0)))

    def elementwise(self, op, a, b, node):
        def rec(x, y):
            if isinstance(x, list) and isinstance(y, list):
                if len(x) == len(y):
                    return [rec(p, q) for p, q in zip(x, y)]
                if len(y) == 1:
                    return [rec(p, y[0]) for p in x]
                if len(x) == 1:
                    return [rec(x[0], q) for q in y]
                raise AnalysisError("E3: shapes do not broadcast (line %d)" % getattr(node, "lineno", 0))
            if isinstance(x, list):
                return [rec(p, y) for p in x]
            if isinstance(y, list):
                return [rec(x, q) for q in y]
            return self.scalar_op(op, scalar(x), scalar(y), node)
        da = a.data if isinstance(a, Arr) else a
        db = b.data if isinstance(b, Arr) else b
        # numpy broadcasting aligns trailing dimensions
        sa = a.shape if isinstance(a, Arr) else ()
        sb = b.shape if isinstance(b, Arr) else ()
        if sa and sb and len(sa) != len(sb):
            if len(sa) < len(sb):
                for _ in range(len(sb) - len(sa)):
                    da = [da]
            else:
                for _ in range(len(sa) - len(sb)):
                    db = [db]
        r = rec(da, db)
        if isinstance(r, list):
            out_ = Arr(r)
            if isinstance(op, (ast.Add, ast.Sub, ast.Mult, ast.Pow)):
                def intlike_(v_):
                    if isinstance(v_, Arr):
                        return v_.inherits_dtype or v_.int_dtype
                    if isinstance(v_, list):
                        return False
                    try:
                        return may_be_integer(scalar(v_))
                    except AnalysisError:
                        return False
                if intlike_(a) and intlike_(b) and ((isinstance(a, Arr) and a.inherits_dtype) or (isinstance(b, Arr) and b.inherits_dtype)) \
                        and not (isinstance(op, ast.Pow) and not (isinstance(b, IRat) and b.const_value() >= 0)):
                    out_.inherits_dtype = True
            return out_
        return r

    def e_Compare(self, node, env):
        left = self.eval(node.left, env)
        result = True
        for op, c in zip(node.ops, node.comparators):
            right = self.eval(c, env)
            r = self.compare(op, left, right, node)
            result = result and r
            left = right
        return result

    def compare(self, op, a, b, node):
        # an array against a number or another array: element-wise truth values (a mask), numpy broadcasting
        if (isinstance(a, Arr) or isinstance(b, Arr)) and not isinstance(op, (ast.Is, ast.IsNot, ast.In, ast.NotIn)) \
                and a is not None and b is not None:
            def plain_(v_):
                if isinstance(v_, Arr):
                    return v_.data
                if isinstance(v_, (list, tuple)) and not is_tagged(v_):
                    m_ = materialise(v_)
                    return m_.data if m_ is not None else None
                if isinstance(v_, Opaque):
                    m_ = materialise(v_)
                    return m_.data if m_ is not None else (scalar(v_) if v_.shape is not None else None)
                if isinstance(v_, (Rat, int, float, Fraction)) and not isinstance(v_, bool):
                    return scalar(v_)
                if isinstance(v_, bool):
                    return v_
                return None
            da_, db_ = plain_(a), plain_(b)
            if da_ is not None and db_ is not None:
                sa_, sb_ = npext.nd_shape(da_), npext.nd_shape(db_)

                def bad_(msg):
                    raise AnalysisError("E3: comparison: %s (line %d)" % (msg, node.lineno))
                S_ = npext.broadcast_shapes([sa_, sb_], bad_)

                def one_(ix):
                    x_ = npext.broadcast_get(da_, sa_, ix) if sa_ else da_
                    y_ = npext.broadcast_get(db_, sb_, ix) if sb_ else db_
                    if isinstance(x_, bool) or isinstance(y_, bool):
                        if isinstance(x_, bool) and isinstance(y_, bool) and isinstance(op, (ast.Eq, ast.NotEq)):
                            return (x_ == y_) == isinstance(op, ast.Eq)
                        bad_("truth value compared with a number")
                    return self.compare(op, x_, y_, node)
                if S_:
                    return Arr(npext.nd_build(S_, one_))

        def norm(v):
            if isinstance(v, Rat):
                if v.is_const():
                    return v.const_value()
                raise Undecided("E3: comparison of a non-constant `%s` (line %d)" % (v.key()[:40], node.lineno))
            if isinstance(v, (list, tuple)):
                return [norm(x) for x in v]
            if isinstance(v, (Arr, Opaque)):
                raise Undecided("E3: comparison of an array (line %d)" % node.lineno)
            return v
        if isinstance(op, (ast.Is, ast.IsNot)):
            r = (a is b) if (a is None or b is None or isinstance(a, bool) or isinstance(b, bool)) else None
            if r is None and isinstance(a, (list, tuple, dict, Obj)) and isinstance(b, (list, tuple, dict, Obj)) \
                    and not is_tagged(a) and not is_tagged(b):
                r = a is b         # containers and records keep their identity in this interpreter (module constants are cached)
            # (a number, string or array is never the object None / True / False: `1 is True` is False)
            if r is None:
                raise AnalysisError("E3: `is` on non-singletons (line %d)" % node.lineno)
            return r if isinstance(op, ast.Is) else not r
        if isinstance(op, (ast.Eq, ast.NotEq)) and (a is None or b is None):
            # `x != None` with x a symbolic value: x is not None
            r = (a is None and b is None)
            return r if isinstance(op, ast.Eq) else not r
        if isinstance(a, (Rat, int, float, Fraction)) and isinstance(b, (Rat, int, float, Fraction)) \
                and not isinstance(a, bool) and not isinstance(b, bool):
            d = scalar(a) - scalar(b)
            if not d.is_const() and d.atoms() <= {"pi"}:
                # a closed expression in pi: decided numerically (exact rational arithmetic around a 50-digit pi)
                sg = pi_sign(d)
                if sg is not None:
                    a, b, d = Rat.const(sg), Rat.const(0), Rat.const(sg)
            if not d.is_const():
                # a principal-value angle against a multiple of pi: its range decides the comparisons that do not depend on the
                # end point (arccos(x) < 0 is false, arccos(x) >= 0 is true; arccos(x) > 0 depends on x)
                ws_ = angle_range_sign(d)
                if ws_ == 1 and isinstance(op, (ast.Lt, ast.GtE)):
                    return isinstance(op, ast.GtE)
                if ws_ == -1 and isinstance(op, (ast.Gt, ast.LtE)):
                    return isinstance(op, ast.LtE)
            if not d.is_const():
                # the input domain of the properties (valid cells, positive wavelengths and sizes, ...): xfabsa/domain.py
                from . import domain as _domain
                dd_ = _domain.decide(type(op).__name__, d)
                if dd_ is not None:
                    return dd_
            if not d.is_const() and self.threshold_policy is not None:
                # `quantity < small positive literal` (either orientation): a tolerance band
                sa, sb = scalar(a), scalar(b)
                for q, t, swap in ((sa, sb, False), (sb, sa, True)):
                    if t.is_const() and not q.is_const() and 0 < t.const_value() <= self.threshold_max:
                        below = self.threshold_policy(q, t.const_value(), node)
                        if below is not None:
                            sg = -1 if below else 1
                            a, b, d = Rat.const(-sg if swap else sg), Rat.const(0), Rat.const(1)
                        break
            if not d.is_const() and self.sign_policy is not None:
                sg = self.sign_policy(d, node)         # sign of (left - right)
                if sg is not None:
                    a, b = Rat.const(sg), Rat.const(0)
        x, y = norm(a), norm(b)
        try:
            if isinstance(op, ast.Eq):
                return x == y
            if isinstance(op, ast.NotEq):
                return x != y
            if isinstance(op, ast.Lt):
                return x < y
            if isinstance(op, ast.LtE):
                return x <= y
            if isinstance(op, ast.Gt):
                return x > y
            if isinstance(op, ast.GtE):
                return x >= y
            if isinstance(op, (ast.In, ast.NotIn)) and isinstance(y, (list, tuple, str, dict)):
                r = x in y
                return r if isinstance(op, ast.In) else not r
        except TypeError:
            pass
        raise AnalysisError("E3: unsupported comparison (line %d)" % node.lineno)

    def e_BoolOp(self, node, env):
        is_and = isinstance(node.op, ast.And)
        for v in node.values:
            r = self.eval(v, env)
            if not isinstance(r, bool):
                raise Undecided("E3: boolean operand does not fold (line %d)" % node.lineno)
            if is_and and not r:
                return False
            if not is_and and r:
                return True
        return is_and

    def _comp_envs(self, generators, env):
        """environments of a comprehension over constant iterables, in iteration order"""
        envs = [dict(env)]
        for g in generators:
            if g.is_async:
                raise AnalysisError("E3: async comprehension (line %d)" % g.iter.lineno)
            nxt = []
            for e in envs:
                it = self.eval(g.iter, e)
                if is_tagged(it):
                    it = self.iterate_tagged(it, g.iter)
                if isinstance(it, Arr):
                    it = it.data
                elif isinstance(it, Opaque):
                    m = materialise(it)
                    if m is None:
                        raise AnalysisError("E3: comprehension over a value of unknown length (line %d)" % g.iter.lineno)
                    it = m.data
                if isinstance(it, dict):
                    it = list(it)
                if not isinstance(it, (list, tuple, range, str)):
                    raise AnalysisError("E3: comprehension over a non-constant iterable (line %d)" % g.iter.lineno)
                if len(it) > 4096:
                    raise AnalysisError("E3: comprehension too long to unroll (line %d)" % g.iter.lineno)
                for x in it:
                    e2 = dict(e)
                    if isinstance(x, list):
                        x = Arr(x)
                    self.assign(g.target, x if not isinstance(x, int) or isinstance(x, bool) else Rat.const(x), e2)
                    if all(self.decide(c, e2) for c in g.ifs):
                        nxt.append(e2)
            envs = nxt
        return envs

    def e_ListComp(self, node, env):
        return [self.eval(node.elt, e) for e in self._comp_envs(node.generators, env)]

    e_GeneratorExp = e_ListComp

    def e_DictComp(self, node, env):
        out = {}
        for e in self._comp_envs(node.generators, env):
            out[dict_key(self.eval(node.key, e))] = self.eval(node.value, e)
        return out

    def e_Dict(self, node, env):
        out = {}
        for k, v in zip(node.keys, node.values):
            if k is None:
                raise AnalysisError("E3: dict unpacking (line %d)" % node.lineno)
            out[dict_key(self.eval(k, env))] = self.eval(v, env)
        return out

    def e_Lambda(self, node, env):
        return ("closure", node, env)

    def call_closure(self, clo, args, kwargs, node):
        _k, fn, cenv = clo
        home = self.home_evaluator(fn)
        if home is not self:
            return home.call_closure(clo, args, kwargs, node)
        env = dict(cenv)
        self.bind_signature(fn, list(args), kwargs, env, default_env=cenv, what="local function")
        if isinstance(fn, ast.Lambda):
            return self.eval(fn.body, env)
        if self.depth >= self.max_depth:
            raise AnalysisError("E3: inlining depth exceeded at local function %s" % fn.name)
        self.__dict__.setdefault("_locals_stack", []).append(local_names(fn))
        gen = is_generator(fn)
        if gen:
            env["$yield"] = []
        self.depth += 1
        try:
            self.exec_block(fn.body, env)
        except _Return as r:
            if not gen:
                return r.value
        finally:
            self.depth -= 1
            self._locals_stack.pop()
        return env["$yield"] if gen else None

    def e_IfExp(self, node, env):
        return self.eval(node.body if self.decide(node.test, env) else node.orelse, env)

    _NOBASE = object()

    def e_Subscript(self, node, env, base=_NOBASE):
        """`base`: the already evaluated value of node.value (sub-evaluators that look at it first hand it down, so that a
        call in the subscripted expression is evaluated -- and logged -- once)"""
        if base is Evaluator._NOBASE:
            base = self.eval(node.value, env)
        if isinstance(base, (Arr, Opaque)) and not isinstance(node.slice, (ast.Slice, ast.Tuple, ast.Constant)):
            sel = self.eval(node.slice, env)
            if isinstance(sel, Arr) and len(sel.shape) == 1:
                sel = list(sel.data)
            if isinstance(sel, list) and sel and all(const_int(x) is not None for x in sel):
                A = base if isinstance(base, Arr) else materialise(base)
                if A is None:
                    raise AnalysisError("E3: row selection from an array of unknown shape (line %d)" % node.lineno)
                try:
                    rows = [A.data[const_int(i)] for i in sel]
                except IndexError:
                    return self.index_error(node)
                return Arr([list(r) if isinstance(r, list) else r for r in rows])
            self.hand_down(node.slice, sel)
        if isinstance(base, tuple) and base and base[0] == "import":
            # a table of another module indexed by a (symbolic) key: opaque row
            return Opaque("%s[%s]" % (base[1], vkey(self.eval(node.slice, env))))
        if isinstance(base, dict):
            k = dict_key(self.eval(node.slice, env))
            if isinstance(k, Rat) or k not in base:
                raise AnalysisError("E3: key %r not in the modelled dictionary (line %d)" % (k, node.lineno))
            return base[k]
        return self.subscript(base, self.index_of(node.slice, env), node)

    def foreign_object_call(self, dotted, args, kwargs, node):
        return NotImplemented

    def foreign_helper_call(self, dotted, args, kwargs, node):
        """a function of another module of the repository that is not one of the pinned API names (a helper added there):
        evaluated in its own module"""
        parts = dotted.split(".")
        if len(parts) < 3 or parts[0] != "xfab":
            return NotImplemented
        from . import core as _core
        rel = "/".join(parts[:-1]) + ".py"
        try:
            other = _core.module(rel)
        except AnalysisError:
            return NotImplemented
        if parts[-1] not in other.functions or not is_helper(other, parts[-1]):
            return NotImplemented
        fn_ = other.functions[parts[-1]]
        return self.home_evaluator(fn_)._call_fn(fn_, list(args), dict(kwargs))

    def resolve_constant(self, dotted):
        """a module-level constant of another module of the repository (`atomlib.CONSTANT_SLOT`): evaluated in that module"""
        parts = dotted.split(".")
        if len(parts) < 2 or parts[0] != "xfab":
            return None
        from . import core as _core
        rel = "/".join(parts[:-1]) + ".py"
        try:
            other = _core.module(rel)
        except AnalysisError:
            return None
        name = parts[-1]
        if name not in other.assigns or name in other.functions or name in other.classes:
            return None
        key = (rel, name)
        if key not in _CONST_CACHE:
            try:
                _CONST_CACHE[key] = self.evaluator_for(other).module_constant(name)
            except AnalysisError:
                _CONST_CACHE[key] = None
        v = _CONST_CACHE[key]
        return v.copy() if isinstance(v, Arr) else v

    def hand_down(self, node, value):
        self.__dict__.setdefault("_pre", {})[id(node)] = value

    def e_Attribute(self, node, env):
        base = self.eval(node.value, env)
        if isinstance(base, tuple) and base and base[0] == "module":
            if base[1] == "numpy":
                if node.attr == "pi":
                    return Rat.atom("pi")
                if node.attr in ("linalg", "random"):
                    return ("module", "numpy." + node.attr)
                return ("npfunc", node.attr)
            return ("npfunc", base[1].split(".", 1)[1] + "." + node.attr)
        if isinstance(base, tuple) and base and base[0] == "import" and base[1] == "math" and node.attr in ("pi", "tau"):
            return Rat.atom("pi") * (2 if node.attr == "tau" else 1)
        if isinstance(base, tuple) and base and base[0] == "import":
            dotted = base[1] + "." + node.attr
            if dotted in self.import_values:
                return self.import_values[dotted]
            v_ = self.resolve_constant(dotted)
            if v_ is not None:
                return v_
            return ("import", dotted)
        if isinstance(base, NTuple):
            if node.attr in base.nt_fields:
                return base[base.nt_fields.index(node.attr)]
            if node.attr == "_fields":
                return base.nt_fields
            if node.attr == "_asdict":
                return ("closure", ast.parse("lambda: _d", mode="eval").body, {"_d": dict(zip(base.nt_fields, base))})
            raise AnalysisError("E3: namedtuple %s has no field %s (line %d)" % (base.nt_name, node.attr, node.lineno))
        if isinstance(base, Obj):
            if node.attr not in base.attrs:
                raise AnalysisError("E3: object %s has no attribute %s (line %d)" % (base.name, node.attr, node.lineno))
            return base.attrs[node.attr]
        if node.attr == "T":
            return self.np_transpose(base, node)
        if node.attr == "shape":
            A = materialise(base)
            if A is not None:
                return tuple(Rat.const(i) for i in A.shape)
        if isinstance(base, tuple) and len(base) == 2 and base[0] == "typeobj" and node.attr in ("kind", "name", "itemsize"):
            k_ = dtype_kind(base)
            if node.attr == "kind" and k_ in ("float", "int", "bool", "complex"):
                return {"float": "f", "int": "i", "bool": "b", "complex": "c"}[k_]
            if node.attr == "kind" and base[1] == "dtype of the caller's data":
                # the analysis ranges over real numbers: the float kind (an integer array takes the branch that converts it to
                # float, with the same values); recorded
                self.trace.append(("dtype-kind-assumed-float", getattr(node, "lineno", 0)))
                return "f"
            if node.attr == "name" and k_ in ("float", "int", "bool"):
                return {"float": "float64", "int": "int64", "bool": "bool"}[k_]
            raise AnalysisError("E3: attribute %s of the dtype %s (line %d)" % (node.attr, base[1], node.lineno))
        if node.attr == "dtype" and isinstance(base, Arr):
            fl_ = base.flat()
            if fl_ and all(isinstance(x_, bool) for x_ in fl_):
                return ("typeobj", "bool")
            if base.int_dtype:
                return ("typeobj", "int64")
            if base.inherits_dtype:
                return ("typeobj", "dtype of the caller's data")       # not a kind dtype_kind() knows: an error where it matters
            return ("typeobj", "float64")
        if node.attr in ("ndim", "size") and isinstance(base, (Arr, Opaque)):
            A = base if isinstance(base, Arr) else materialise(base)
            if A is not None:
                n_ = 1
                for d_ in A.shape:
                    n_ *= d_
                return Rat.const(len(A.shape) if node.attr == "ndim" else n_)
        return ("method", base, node.attr)

    def e_Call(self, node, env):
        f = self.eval(node.func, env)
        args = self._display(node.args, env)
        kwargs = {}
        for k in node.keywords:
            v_ = self.eval(k.value, env)
            if k.arg is None:
                if not isinstance(v_, dict) or not all(isinstance(x_, str) for x_ in v_):
                    raise AnalysisError("E3: ** of a value that is not a dictionary of names (line %d)" % node.lineno)
                kwargs.update(v_)
            else:
                kwargs[k.arg] = v_
        self._call_env = env          # (the float shadow of a truncating conversion folds its argument a second time)
        return self.dispatch_call(f, args, kwargs, node)

    def dispatch_call(self, f, args, kwargs, node):
        """apply a callable value to evaluated arguments"""
        if isinstance(f, tuple) and f:
            kind = f[0]
            if kind == "partial":
                return self.dispatch_call(f[1], list(f[2]) + list(args), dict(f[3], **kwargs), node)
            if kind == "attrgetter":
                if len(args) != 1 or kwargs:
                    raise AnalysisError("E3: attrgetter called with %d arguments (line %d)" % (len(args), node.lineno))
                vals = [self.get_attribute(args[0], a_, node) for a_ in f[1]]
                return vals[0] if len(vals) == 1 else tuple(vals)
            if kind == "function":
                if len(f) > 2 and f[2] != self.mod.rel:
                    from . import core as _core
                    return self.evaluator_for(_core.module(f[2])).module_call(f[1], args, kwargs, node)
                return self.module_call(f[1], args, kwargs, node)
            if kind == "npfunc":
                return self.np_call(f[1], args, kwargs, node)
            if kind == "builtin":
                return self.builtin(f[1], args, kwargs, node)
            if kind == "import":
                name = f[1]
                if name in ("math.degrees",):
                    return self.np_call("degrees", args, kwargs, node)
                if name in ("math.radians",):
                    return self.np_call("radians", args, kwargs, node)
                if name.startswith("math.") and name[5:] in ("cos", "sin", "tan", "sqrt", "acos", "asin", "atan2", "atan", "exp", "fabs", "floor", "ceil",
                                                              "hypot", "isfinite", "isnan", "isinf", "log", "copysign", "pow", "fmod", "trunc"):
                    alias = {"acos": "arccos", "asin": "arcsin", "atan": "arctan", "atan2": "arctan2", "pow": "power", "trunc": "fix"}
                    return self.np_call(alias.get(name[5:], name[5:]), args, kwargs, node)
                if name in ("math.pi",):
                    return Rat.atom("pi")
                if name.startswith("six.moves.range"):
                    return self.builtin("range", args, kwargs, node)
                if name == "re.compile" and len(args) == 1 and isinstance(args[0], str):
                    return ("regex", args[0])
                if name == "re.sub" and len(args) == 3 and isinstance(args[0], tuple) and len(args[0]) == 2 and args[0][0] == "regex":
                    args = [args[0][1]] + list(args[1:])
                if name == "re.sub" and len(args) == 3 and all(isinstance(x, str) for x in args):
                    import re as _re
                    return _re.sub(args[0], args[1], args[2])
                r_ = self.stdlib_call(name, args, kwargs, node)
                if r_ is not NotImplemented:
                    return r_
                self.calls.append((name, [vkey(a) for a in args], node.lineno))
                ev_index = len(self.events)
                self.events.append(("import", name, list(args)))
                if self.import_policy is not None:
                    r = self.import_policy(name, args, kwargs, node)
                    if r is not NotImplemented:
                        return r
                r = self.foreign_helper_call(name, args, kwargs, node)
                if r is not NotImplemented:
                    return r
                r = self.foreign_object_call(name, args, kwargs, node)
                if r is not NotImplemented:
                    # the call was evaluated inside its own module: what it does there is in the log, the call itself is no event
                    if ev_index < len(self.events) and self.events[ev_index][:2] == ("import", name):
                        del self.events[ev_index]
                    return r
                return self.opaque_call(name, args, kwargs, node)
            if kind == "method":
                return self.method_call(f[1], f[2], args, kwargs, node)
            if kind == "closure":
                return self.call_closure(f, args, kwargs, node)
            if kind == "ntclass":
                fields = f[2]
                vals = list(args) + [None] * (len(fields) - len(args))
                for k_, v_ in kwargs.items():
                    if k_ not in fields:
                        raise AnalysisError("E3: namedtuple %s has no field %s (line %d)" % (f[1], k_, node.lineno))
                    vals[fields.index(k_)] = v_
                if len(args) > len(fields) or any(v_ is None and fields[i_] not in kwargs and i_ >= len(args) for i_, v_ in enumerate(vals)):
                    raise AnalysisError("E3: namedtuple %s called with the wrong number of fields (line %d)" % (f[1], node.lineno))
                return NTuple(f[1], fields, vals)
        raise AnalysisError("E3: call of `%s` unsupported (line %d)" % (unparse(node.func)[:40], node.lineno))

    # ---------------------------------------------------------------- calls
    def iterate_tagged(self, v, node):
        """iteration over a function / class / module value: only an enumeration class has items"""
        raise AnalysisError("E3: iteration over a %s value (line %d)" % (v[0], getattr(node, "lineno", 0)))

    def as_sequence(self, v, node):
        if is_tagged(v):
            return self.iterate_tagged(v, node)
        if isinstance(v, Arr):
            return [Arr(x) if isinstance(x, list) else x for x in v.data]
        if isinstance(v, Opaque):
            m = materialise(v)
            if m is None:
                raise AnalysisError("E3: iteration over a value of unknown length (line %d)" % getattr(node, "lineno", 0))
            return [Arr(x) if isinstance(x, list) else x for x in m.data]
        if isinstance(v, dict):
            return list(v)
        if isinstance(v, (list, tuple, str)):
            return list(v)
        raise AnalysisError("E3: iteration over %s (line %d)" % (type(v).__name__, getattr(node, "lineno", 0)))

    def call_value(self, f, args, node, kwargs=None):
        """call a function value (closure, module function, operator, builtin, partial, bound method) on evaluated arguments"""
        if isinstance(f, tuple) and f and isinstance(f[0], str):
            return self.dispatch_call(f, list(args), dict(kwargs or {}), node)
        raise AnalysisError("E3: call of a value that is not a known function (line %d)" % getattr(node, "lineno", 0))

    def get_attribute(self, base, attr, node):
        """attribute of an evaluated value (records and named tuples; the object-aware interpreter adds classes)"""
        if isinstance(base, NTuple) and attr in base.nt_fields:
            return base[base.nt_fields.index(attr)]
        if isinstance(base, Obj) and attr in base.attrs:
            return base.attrs[attr]
        raise AnalysisError("E3: attribute `%s` of %s (line %d)" % (attr, type(base).__name__, getattr(node, "lineno", 0)))

    OPERATORS = {"operator.add": ast.Add, "operator.sub": ast.Sub, "operator.mul": ast.Mult, "operator.truediv": ast.Div,
                 "operator.mod": ast.Mod, "operator.pow": ast.Pow, "operator.matmul": ast.MatMult, "operator.floordiv": ast.FloorDiv}
    COMPARATORS = {"operator.eq": ast.Eq, "operator.ne": ast.NotEq, "operator.lt": ast.Lt, "operator.le": ast.LtE,
                   "operator.gt": ast.Gt, "operator.ge": ast.GtE}

    def stdlib_call(self, name, args, kwargs, node):
        import itertools as _it
        if name in self.OPERATORS and len(args) == 2:
            return self.binop(self.OPERATORS[name](), args[0], args[1], node)
        if name in self.COMPARATORS and len(args) == 2:
            return self.compare(self.COMPARATORS[name](), args[0], args[1], node)
        if name in ("re.match", "re.search", "re.fullmatch", "re.findall", "re.split") and len(args) == 2 and not kwargs \
                and isinstance(args[0], (str, tuple)) and isinstance(args[1], str):
            # module-level regular-expression functions on constant text: the compiled pattern's method
            pat_ = args[0] if isinstance(args[0], str) else (args[0][1] if len(args[0]) == 2 and args[0][0] == "regex" else None)
            if pat_ is not None:
                return self.method_call(("regex", pat_), name[3:], [args[1]], {}, node)
        if name == "operator.index" and len(args) == 1:
            if isinstance(args[0], IRat) or (isinstance(args[0], Rat) and args[0].is_const() and args[0].const_value().denominator == 1
                                              and not getattr(args[0], "_is_float", False)):
                return as_int_typed(args[0])
            raise AnalysisError("E3: operator.index of a value whose type is not an integer type (line %d)" % node.lineno)
        if name == "operator.neg" and len(args) == 1:
            return self.binop(ast.Mult(), Rat.const(-1), args[0], node)
        if name == "operator.itemgetter" and args:
            keys = list(args)
            return ("closure", ast.parse("lambda _x: (%s)" % (", ".join("_x[_k%d]" % i for i in range(len(keys))) + ("," if len(keys) > 1 else ""))
                                         , mode="eval").body, {"_k%d" % i: k for i, k in enumerate(keys)})
        if name == "functools.partial" and args:
            return ("partial", args[0], tuple(args[1:]), dict(kwargs))
        if name == "types.MappingProxyType" and len(args) == 1 and isinstance(args[0], dict) and not kwargs:
            return args[0]                  # a read-only view of the mapping: the same keys and values
        if name in ("functools.lru_cache", "functools.cache", "functools.wraps"):
            # memoising / metadata decorators return the function's own value
            if len(args) == 1 and not kwargs and is_tagged(args[0]):
                return args[0]
            return ("closure", ast.parse("lambda _f: _f", mode="eval").body, {})
        if name == "operator.attrgetter" and args and all(isinstance(a_, str) and "." not in a_ for a_ in args):
            return ("attrgetter", tuple(args))
        if name == "functools.reduce" and 2 <= len(args) <= 3:
            seq = self.as_sequence(args[1], node)
            if len(args) == 3:
                acc = args[2]
            elif seq:
                acc, seq = seq[0], seq[1:]
            else:
                raise AnalysisError("E3: reduce of an empty sequence (line %d)" % node.lineno)
            for x in seq:
                acc = self.call_value(args[0], [acc, x], node)
            return acc
        if name == "itertools.product":
            seqs = [self.as_sequence(a, node) for a in args]
            rep = const_int(kwargs.get("repeat", 1))
            if rep is None:
                raise AnalysisError("E3: itertools.product with a non-constant repeat (line %d)" % node.lineno)
            out = [tuple(t) for t in _it.product(*seqs, repeat=rep)]
            if len(out) > 100000:
                raise AnalysisError("E3: itertools.product too long (line %d)" % node.lineno)
            return out
        if name in ("itertools.takewhile", "itertools.dropwhile") and len(args) == 2:
            seq_ = self.as_sequence(args[1], node)
            k_ = 0
            for x_ in seq_:
                t_ = self.call_value(args[0], [x_], node)
                if isinstance(t_, Rat) and t_.is_const():
                    t_ = t_.const_value() != 0
                if not isinstance(t_, bool):
                    raise AnalysisError("E3: %s with a predicate that is not decided (line %d)" % (name, node.lineno))
                if not t_:
                    break
                k_ += 1
            return seq_[:k_] if name.endswith("takewhile") else seq_[k_:]
        if name == "itertools.starmap" and len(args) == 2:
            return [self.call_value(args[0], list(self.as_sequence(t_, node)), node) for t_ in self.as_sequence(args[1], node)]
        if name == "itertools.accumulate" and 1 <= len(args) <= 2 and set(kwargs) <= {"initial"}:
            seq_ = self.as_sequence(args[0], node)
            out_, acc_ = [], kwargs.get("initial")
            if acc_ is not None:
                out_.append(acc_)
            for x_ in seq_:
                if acc_ is None:
                    acc_ = x_
                else:
                    acc_ = self.call_value(args[1], [acc_, x_], node) if len(args) == 2 else self.binop(ast.Add(), acc_, x_, node)
                out_.append(acc_)
            return out_
        if name == "itertools.compress" and len(args) == 2:
            sel_ = self.as_sequence(args[1], node)
            flags_ = []
            for f_ in sel_:
                if isinstance(f_, Rat) and f_.is_const():
                    f_ = f_.const_value() != 0
                if not isinstance(f_, bool):
                    raise AnalysisError("E3: itertools.compress with selectors that are not decided (line %d)" % node.lineno)
                flags_.append(f_)
            return [x_ for x_, f_ in zip(self.as_sequence(args[0], node), flags_) if f_]
        if name == "itertools.zip_longest" and args:
            seqs_ = [self.as_sequence(a_, node) for a_ in args]
            fill_ = kwargs.get("fillvalue")
            n_ = max(len(s_) for s_ in seqs_)
            return [tuple(s_[i_] if i_ < len(s_) else fill_ for s_ in seqs_) for i_ in range(n_)]
        if name == "itertools.chain":
            out = []
            for a in args:
                out.extend(self.as_sequence(a, node))
            return out
        if name == "itertools.chain.from_iterable" and len(args) == 1:
            out = []
            for a in self.as_sequence(args[0], node):
                out.extend(self.as_sequence(a, node))
            return out
        if name == "itertools.islice" and 2 <= len(args) <= 4:
            ints = [const_int(a) if a is not None else None for a in args[1:]]
            if any(i is None and a is not None for i, a in zip(ints, args[1:])):
                raise AnalysisError("E3: islice with non-constant bounds (line %d)" % node.lineno)
            return list(_it.islice(self.as_sequence(args[0], node), *ints))
        if name in ("itertools.permutations", "itertools.combinations", "itertools.combinations_with_replacement") and len(args) >= 1:
            r = const_int(args[1]) if len(args) > 1 else None
            f = _it.permutations if name.endswith("permutations") else _it.combinations_with_replacement if name.endswith("replacement") else _it.combinations
            return [tuple(t) for t in (f(self.as_sequence(args[0], node), r) if r is not None else f(self.as_sequence(args[0], node)))]
        if name == "itertools.repeat" and len(args) == 2 and const_int(args[1]) is not None:
            return [args[0]] * const_int(args[1])
        if name == "collections.namedtuple" and len(args) == 2 and isinstance(args[0], str):
            fields = args[1]
            if isinstance(fields, str):
                fields = fields.replace(",", " ").split()
            fields = list(fields)
            if not all(isinstance(f_, str) for f_ in fields):
                raise AnalysisError("E3: namedtuple with non-constant field names (line %d)" % node.lineno)
            return ("ntclass", args[0], tuple(fields))
        if name == "collections.OrderedDict" and len(args) <= 1:
            out = {}
            if args:
                src = args[0] if isinstance(args[0], dict) else self.as_sequence(args[0], node)
                for kv in (src.items() if isinstance(src, dict) else src):
                    out[dict_key(kv[0])] = kv[1]
            return out
        if name == "copy.copy" or name == "copy.deepcopy":
            v = args[0]
            return v.copy() if isinstance(v, Arr) else (list(v) if isinstance(v, list) else dict(v) if isinstance(v, dict) else v)
        return NotImplemented

    def module_call(self, name, args, kwargs, node):
        root = self.__dict__.get("_root")
        if root is not None and name in self.mod.functions and root.mod.functions.get(name) is self.mod.functions[name] \
                and not is_helper(root.mod, name):
            root.depth = self.depth
            return root.module_call(name, args, kwargs, node)
        if is_helper(self.mod, name):
            # not an anchor of the pinned API: seen through, invisible to call policies and call logs
            return self._call_fn(self.mod.func(name), args, kwargs)
        if root is None:
            # (inside another module of the family the call is no call of the root's module: the forwarding policy logs it as
            # the import event `module.name`)
            self.calls.append((name, [vkey(a) for a in args], node.lineno))
            self.events.append(("call", name, list(args)))
        if self.call_policy is not None:
            r = self.call_policy(name, args, kwargs, node)
            if r is not NotImplemented:
                return r
        if self.inline is True or name in self.inline:
            return self._call_fn(self.mod.func(name), args, kwargs)
        return self.opaque_call(name, args, kwargs, node)

    def opaque_call(self, name, args, kwargs, node):
        k = "%s(%s)" % (name, ",".join([vkey(a) for a in args] + ["%s=%s" % (k, vkey(v)) for k, v in sorted(kwargs.items())]))
        return Opaque(k)

    TYPE_KINDS = {"int": {"int", "bool"}, "float": {"float"}, "bool": {"bool"}, "str": {"str"}, "list": {"list"}, "tuple": {"tuple"},
                  "dict": {"dict"}, "complex": set(), "bytes": set(), "set": set(), "frozenset": set(), "NoneType": {"NoneType"},
                  "numbers.Number": {"int", "float", "bool"}, "numbers.Real": {"int", "float", "bool"}, "numbers.Complex": {"int", "float", "bool"},
                  "numbers.Rational": {"int", "bool"}, "numbers.Integral": {"int", "bool"}, "ndarray": {"ndarray"},
                  "collections.abc.Sequence": {"list", "tuple", "str"}, "collections.abc.Mapping": {"dict"}, "matrix": set()}

    def isinstance_test(self, v, types, node):
        """isinstance(v, types) by kinds: a symbolic number is an int or a float (either), so `numbers.Real` is decided and
        `float` is not; numpy scalar classes are never decided for a symbolic number.  NotImplemented: not a case for this test"""
        if isinstance(types, tuple) and not is_tagged(types):
            ts = list(types)
        else:
            ts = [types]
        want = set()
        for t in ts:
            name = None
            if isinstance(t, tuple) and len(t) == 2 and isinstance(t[1], str) and t[0] in ("builtin", "type", "typeobj", "import", "npfunc"):
                name = t[1]
            if name is None or name not in self.TYPE_KINDS:
                return NotImplemented
            want |= self.TYPE_KINDS[name]
        if isinstance(v, bool):
            have = {"bool"}
        elif isinstance(v, str):
            have = {"str"}
        elif v is None:
            have = {"NoneType"}
        elif isinstance(v, IRat):
            have = {"int"}
        elif isinstance(v, Rat):
            if v.is_const():
                c = v.const_value()
                have = {"int"} if c.denominator == 1 and not getattr(v, "_is_float", False) and False else {"int", "float"} if c.denominator == 1 else {"float"}
            else:
                have = {"int", "float"}
        elif isinstance(v, (Arr, Opaque)):
            have = {"ndarray"}
        elif is_tagged(v) or isinstance(v, NTuple):
            return NotImplemented
        elif isinstance(v, tuple):
            have = {"tuple"}
        elif isinstance(v, list):
            have = {"list"}
        elif isinstance(v, dict):
            have = {"dict"}
        else:
            return NotImplemented
        if have <= want:
            return True
        if not (have & want):
            return False
        return NotImplemented

    def builtin(self, name, args, kwargs, node):
        if name == "range":
            ints = [const_int(a) for a in args]
            if any(i is None for i in ints):
                raise AnalysisError("E3: range over a non-constant (line %d)" % node.lineno)
            return [iconst(i) for i in range(*ints)]
        if name == "bool" and len(args) == 1 and not kwargs:
            v = args[0]
            if isinstance(v, bool):
                return v
            if v is None:
                return False
            if isinstance(v, (str, list, tuple, dict)) and not is_tagged(v):
                return len(v) > 0
            if isinstance(v, Rat) and v.is_const():
                return v.const_value() != 0
            if isinstance(v, Arr) and len(v.flat()) == 1 and isinstance(v.flat()[0], bool):
                return v.flat()[0]
            raise AnalysisError("E3: truth value of `%s` (line %d)" % (vkey(v)[:40], node.lineno))
        if name in ("set", "frozenset") and len(args) <= 1 and not kwargs:
            # kept as a list without repetitions (membership and iteration are what the analysed code does with a set)
            seq_ = self.as_sequence(args[0], node) if args else []
            out_, seen_ = [], set()
            for v_ in seq_:
                k_ = vkey(v_)
                if k_ not in seen_:
                    seen_.add(k_)
                    out_.append(v_)
            return out_
        if name == "callable" and len(args) == 1:
            return is_tagged(args[0])
        if name == "hasattr" and len(args) == 2 and isinstance(args[1], str) \
                and (args[0] is None or isinstance(args[0], (bool, str, list, dict, Rat, Arr, Opaque)) or (isinstance(args[0], tuple) and not is_tagged(args[0]))):
            v, attr_ = args[0], args[1]
            seq_ = isinstance(v, (str, list, tuple, dict, Arr, Opaque))
            table_ = {"__getitem__": seq_, "__len__": seq_, "__iter__": seq_, "keys": isinstance(v, dict), "items": isinstance(v, dict),
                      "shape": isinstance(v, (Arr, Opaque)), "dtype": isinstance(v, (Arr, Opaque)), "ndim": isinstance(v, (Arr, Opaque)),
                      "append": isinstance(v, list), "upper": isinstance(v, str), "lower": isinstance(v, str)}
            if attr_ in table_:
                return bool(table_[attr_])
            raise AnalysisError("E3: hasattr(<%s>, %r) (line %d)" % (type(v).__name__, attr_, node.lineno))
        if name == "isinstance" and len(args) == 2:
            r_ = self.isinstance_test(args[0], args[1], node)
            if r_ is not NotImplemented:
                return r_
            is_type = lambda t_: isinstance(t_, tuple) and len(t_) == 2 and t_[0] in ("builtin", "type") and isinstance(t_[1], str)
            types = (args[1],) if is_type(args[1]) else (args[1] if isinstance(args[1], tuple) else (args[1],))
            tn = [t[1] for t in types if is_type(t)]
            if len(tn) != len(types):
                raise AnalysisError("E3: isinstance against a non-builtin type (line %d)" % node.lineno)
            v = args[0]
            kind = "bool" if isinstance(v, bool) else "str" if isinstance(v, str) else "NoneType" if v is None else \
                "number" if isinstance(v, Rat) and v.is_const() else \
                "function" if is_tagged(v) else "tuple" if isinstance(v, tuple) else "list" if isinstance(v, list) else \
                "dict" if isinstance(v, dict) else "ndarray" if isinstance(v, Arr) else None
            if kind in ("function", "tuple", "list", "dict", "ndarray"):
                return kind in tn
            if kind is None:
                raise AnalysisError("E3: isinstance of a symbolic value (line %d)" % node.lineno)
            if kind == "number":
                c = v.const_value()
                kind = "int" if c.denominator == 1 and not getattr(v, "_is_float", False) else "float"
            return kind in tn or (kind == "bool" and "int" in tn)
        if name == "str" and len(args) == 1:
            return args[0] if isinstance(args[0], str) else Opaque("str(%s)" % vkey(args[0]))
        if name == "len":
            v = args[0]
            if isinstance(v, (list, tuple)):
                return Rat.const(len(v))
            A = materialise(v)
            if A is not None:
                return Rat.const(A.shape[0])
            raise AnalysisError("E3: len of unknown (line %d)" % node.lineno)
        if name == "abs":
            return self.np_call("abs", args, kwargs, node)
        if name == "round" and len(args) in (1, 2) and not kwargs:
            nd = const_int(args[1]) if len(args) == 2 else 0
            x = scalar(args[0]) if isinstance(args[0], (Rat, int, float, Fraction)) and not isinstance(args[0], bool) else None
            if x is None or nd is None:
                raise AnalysisError("E3: round() of something else than a number (line %d)" % node.lineno)
            if not x.is_const():
                if nd == 0:
                    return self.apply_unary("round", x, node)
                raise AnalysisError("E3: round(x, %d) of a non-constant (line %d)" % (nd, node.lineno))
            c = Fraction(x.const_value())
            q = Fraction(10) ** nd
            lo = (c * q).__floor__()
            rem = c * q - lo
            # exact round-half-even; the code rounds the binary float, which agrees unless the value sits on a boundary
            if abs(rem - Fraction(1, 2)) < Fraction(1, 10 ** 9):
                raise AnalysisError("E3: round() of a value on a rounding boundary: binary and exact arithmetic may differ (line %d)" % node.lineno)
            return Rat.const(Fraction(lo + (1 if rem > Fraction(1, 2) else 0)) / q)
        if name in ("float", "int"):
            return args[0]
        if name in ("list", "tuple"):
            v = args[0] if args else []
            if isinstance(v, Opaque):
                m_ = materialise(v)
                if m_ is None:
                    raise AnalysisError("E3: %s() of an array of unknown shape (line %d)" % (name, node.lineno))
                v = m_
            if isinstance(v, Arr):
                v = [Arr(x_) if isinstance(x_, list) else x_ for x_ in v.data]
            elif is_tagged(v):
                v = self.iterate_tagged(v, node)
            elif isinstance(v, dict):
                v = list(v)
            elif not isinstance(v, (list, tuple, str, range)):
                raise AnalysisError("E3: %s() of %s (line %d)" % (name, type(v).__name__, node.lineno))
            return list(v) if name == "list" else tuple(v)
        if name in ("min", "max") and len(args) >= 2:
            vals = [scalar(a) for a in args]
            consts = [v for v in vals if v.is_const()]
            syms = [v for v in vals if not v.is_const()]
            if not syms:
                f = min if name == "min" else max
                return Rat.const(f(v.const_value() for v in consts))
            if len(syms) == 1:
                x_ = syms[0]
                f_ = min if name == "min" else max
                c_ = Rat.const(f_(v.const_value() for v in consts))
                cv_ = c_.const_value()
                if (name == "min" and cv_ == 1) or (name == "max" and cv_ == -1):
                    # min(1, x) / max(-1, x): the guard of an arccos / arcsin argument against round-off; identity on the
                    # mathematical range of a cosine
                    self.trace.append(("clip-assumed-inactive", name, x_.key()))
                    return x_
                # a sum of even powers with positive coefficients is never negative: max(0, cos^2) is the value itself
                if cv_ == 0 and sum_of_squares(x_):
                    return x_ if name == "max" else c_
                if cv_ == 0 and sum_of_squares(-x_):
                    return c_ if name == "max" else x_
                # decided on the whole input domain (and for every cosine / sine): max(2 - 2 cos t, 0) is the value itself
                from . import domain as _domain
                if _domain.decide("GtE", x_ - c_):
                    return x_ if name == "max" else c_
                if _domain.decide("LtE", x_ - c_):
                    return c_ if name == "max" else x_
                # any other constant bound is a genuine case distinction: a tolerance band (small positive bound) or a sign case
                if self.threshold_policy is not None and 0 < cv_ <= self.threshold_max:
                    below = self.threshold_policy(x_, cv_, node)
                    if below is not None:
                        return (c_ if below else x_) if name == "max" else (x_ if below else c_)
                if self.sign_policy is not None:
                    sg = self.sign_policy(x_ - c_, node)
                    if sg is not None:
                        return (x_ if sg >= 0 else c_) if name == "max" else (x_ if sg <= 0 else c_)
                return func_atom(name, x_, c_)
            raise AnalysisError("E3: %s of several non-constants (line %d)" % (name, node.lineno))
        if name == "sum" and 1 <= len(args) <= 2:
            v = args[0]
            if isinstance(v, Arr):
                v = [Arr(x) if isinstance(x, list) else x for x in v.data]
            elif isinstance(v, Opaque):
                m = materialise(v)
                if m is None:
                    return Opaque("sum(%s)" % vkey(v))
                v = [Arr(x) if isinstance(x, list) else x for x in m.data]
            tot = args[1] if len(args) == 2 else Rat.const(0)
            for x in v:
                tot = self.binop(ast.Add(), tot, x, node)
            return tot
        if name == "dict":
            out = {}
            if args:
                src = args[0]
                for kv in (list(src.items()) if isinstance(src, dict) else self.as_sequence(src, node)):
                    if not isinstance(kv, (list, tuple, Arr)) or len(kv if not isinstance(kv, Arr) else kv.data) != 2:
                        raise AnalysisError("E3: dict() of a sequence that is not made of pairs (line %d)" % node.lineno)
                    kv = kv.data if isinstance(kv, Arr) else kv
                    out[dict_key(kv[0])] = kv[1]
            out.update(kwargs)
            return out
        if name == "map" and len(args) >= 2:
            seqs = [self.as_sequence(a, node) for a in args[1:]]
            return [self.call_value(args[0], list(t), node) for t in zip(*seqs)]
        if name == "filter" and len(args) == 2:
            out = []
            for x in self.as_sequence(args[1], node):
                keep = x if args[0] is None else self.call_value(args[0], [x], node)
                if not isinstance(keep, bool):
                    raise AnalysisError("E3: filter predicate does not fold (line %d)" % node.lineno)
                if keep:
                    out.append(x)
            return out
        if name == "iter" and len(args) == 1:
            return self.as_sequence(args[0], node)
        if name == "next" and len(args) >= 1 and isinstance(args[0], tuple) and not is_tagged(args[0]):
            args = [list(args[0])] + list(args[1:])
        if name == "next" and len(args) >= 1 and isinstance(args[0], list):
            if args[0]:
                return args[0].pop(0)
            if len(args) == 2:
                return args[1]
            raise AnalysisError("E3: next() of an exhausted sequence (line %d)" % node.lineno)
        if name in ("zip", "enumerate", "reversed", "sorted", "all", "any"):
            seqs = []
            if name == "enumerate" and len(args) == 2:
                kwargs = dict(kwargs, start=args[1])
                args = args[:1]
            for v in args:
                if isinstance(v, Arr):
                    v = [Arr(x) if isinstance(x, list) else x for x in v.data]
                elif isinstance(v, Opaque):
                    m = materialise(v)
                    if m is None:
                        raise AnalysisError("E3: %s over a value of unknown length (line %d)" % (name, node.lineno))
                    v = [Arr(x) if isinstance(x, list) else x for x in m.data]
                if isinstance(v, dict):
                    v = list(v)
                if isinstance(v, range):
                    v = [Rat.const(i_) for i_ in v]
                if not isinstance(v, (list, tuple, str)):
                    raise AnalysisError("E3: %s over a non-sequence (line %d)" % (name, node.lineno))
                seqs.append(list(v))
            if name == "zip":
                return [tuple(t) for t in zip(*seqs)]
            if name == "enumerate" and len(seqs) == 1:
                start = const_int(kwargs.get("start", 0)) or 0
                return [(Rat.const(i + start), x) for i, x in enumerate(seqs[0])]
            if name == "reversed" and len(seqs) == 1:
                return list(reversed(seqs[0]))
            if name in ("all", "any") and len(seqs) == 1:
                tv = [x if isinstance(x, bool) else (x.const_value() != 0) if isinstance(x, Rat) and x.is_const() else None for x in seqs[0]]
                if all(t is not None for t in tv):
                    return all(tv) if name == "all" else any(tv)
            if name == "sorted" and len(seqs) == 1 and not kwargs:
                keys = []
                for x in seqs[0]:
                    ci = x if isinstance(x, str) else (scalar(x).const_value() if isinstance(x, Rat) and x.is_const() else None)
                    if ci is None:
                        raise AnalysisError("E3: sorted() of non-constants (line %d)" % node.lineno)
                    keys.append(ci)
                order = sorted(range(len(keys)), key=lambda i: keys[i])
                return [seqs[0][i] for i in order]
        raise AnalysisError("E3: builtin %s unsupported (line %d)" % (name, node.lineno))

    def method_call(self, base, attr, args, kwargs, node):
        if isinstance(base, tuple) and len(base) == 2 and base[0] in ("builtin", "type") and base[1] == "str" and args and isinstance(args[0], str) \
                and attr in ("isalpha", "isdigit", "isspace", "isupper", "islower", "isalnum", "upper", "lower", "strip", "lstrip", "rstrip", "title",
                             "capitalize", "startswith", "endswith") and all(isinstance(a_, str) for a_ in args) and not kwargs:
            return getattr(str, attr)(*args)               # str.method(text, ...) on constant text
        if isinstance(base, str) and not args and not kwargs and attr in ("isalpha", "isdigit", "isspace", "isupper", "islower", "isalnum", "title", "capitalize"):
            return getattr(base, attr)()
        if isinstance(base, tuple) and len(base) == 2 and base[0] == "regex" and attr == "sub" and len(args) == 2 \
                and all(isinstance(x_, str) for x_ in args):
            import re as _re
            return _re.sub(base[1], args[0], args[1])
        if isinstance(base, tuple) and len(base) == 2 and base[0] == "regex" and args and all(isinstance(x_, str) for x_ in args) and not kwargs:
            # a compiled pattern applied to a constant string: folded with the standard library's own engine
            import re as _re
            if attr in ("match", "search", "fullmatch") and len(args) == 1:
                m_ = getattr(_re.compile(base[1]), attr)(args[0])
                return None if m_ is None else ("rematch", m_)
            if attr == "findall" and len(args) == 1:
                return [x_ if isinstance(x_, str) else list(x_) for x_ in _re.findall(base[1], args[0])]
            if attr == "split" and len(args) == 1:
                return _re.split(base[1], args[0])
        if isinstance(base, tuple) and len(base) == 2 and base[0] == "npfunc" and base[1] in ("multiply", "add", "subtract", "divide", "true_divide") \
                and attr == "outer" and len(args) == 2 and not kwargs:
            # ufunc.outer(A, B)[i.., j..] = op(A[i..], B[j..])
            op_ = {"multiply": ast.Mult, "add": ast.Add, "subtract": ast.Sub, "divide": ast.Div, "true_divide": ast.Div}[base[1]]()

            def plain_(v_):
                if isinstance(v_, Arr):
                    return v_.data
                if isinstance(v_, (list, tuple, Opaque)):
                    m_ = materialise(v_)
                    if m_ is None:
                        raise AnalysisError("E3: %s.outer of an array of unknown shape (line %d)" % (base[1], node.lineno))
                    return m_.data
                return scalar(v_)
            A_, B_ = plain_(args[0]), plain_(args[1])

            def right_(x_, d_):
                return [right_(x_, e_) for e_ in d_] if isinstance(d_, list) else self.scalar_op(op_, x_, scalar(d_), node)

            def left_(d_):
                return [left_(e_) for e_ in d_] if isinstance(d_, list) else right_(scalar(d_), B_)
            r_ = left_(A_)
            return Arr(r_) if isinstance(r_, list) else r_
        if isinstance(base, tuple) and len(base) == 2 and base[0] == "npfunc":
            r_ = npext.ufunc_method(self, base[1], attr, args, kwargs, node)
            if r_ is not NotImplemented:
                return r_
            raise AnalysisError("E3: numpy.%s.%s is not modelled (line %d)" % (base[1], attr, getattr(node, "lineno", 0)))
        if isinstance(base, tuple) and len(base) == 2 and base[0] == "rematch" and not kwargs:
            ints = [const_int(a_) if not isinstance(a_, str) else a_ for a_ in args]
            if any(i_ is None for i_ in ints):
                raise AnalysisError("E3: match.%s with a non-constant group (line %d)" % (attr, node.lineno))
            try:
                if attr == "group":
                    r_ = base[1].group(*ints)
                    return list(r_) if isinstance(r_, tuple) else r_
                if attr == "groups" and not args:
                    return list(base[1].groups())
                if attr in ("start", "end") and len(args) <= 1:
                    return Rat.const(getattr(base[1], attr)(*ints))
                if attr == "span" and len(args) <= 1:
                    return tuple(Rat.const(x_) for x_ in base[1].span(*ints))
            except (IndexError, TypeError) as e_:
                raise AnalysisError("E3: match.%s: %s (line %d)" % (attr, e_, node.lineno))
        if attr == "dot" and len(args) == 1:
            return self.np_dot(base, args[0], node)
        if isinstance(base, list) and not kwargs:
            # the list protocol (mutating methods act on the value itself: aliases see the change, as in Python)
            if attr == "append" and len(args) == 1:
                base.append(args[0])
                return None
            if attr == "extend" and len(args) == 1:
                base.extend(self.as_sequence(args[0], node))
                return None
            if attr == "reverse" and not args:
                base.reverse()
                return None
            if attr == "insert" and len(args) == 2 and const_int(args[0]) is not None:
                base.insert(const_int(args[0]), args[1])
                return None
            if attr == "pop" and len(args) <= 1 and all(const_int(a_) is not None for a_ in args):
                if not base:
                    raise AnalysisError("E3: pop from an empty list (line %d)" % node.lineno)
                return base.pop(*[const_int(a_) for a_ in args])
            if attr == "clear" and not args:
                del base[:]
                return None
            if attr == "copy" and not args:
                return list(base)
            if attr in ("index", "count", "remove") and len(args) == 1:
                keys = [vkey(x_) for x_ in base]
                k_ = vkey(args[0])
                if attr == "count":
                    return Rat.const(keys.count(k_))
                if k_ not in keys:
                    raise AnalysisError("E3: list.%s of a value that is not in the list (line %d)" % (attr, node.lineno))
                if attr == "index":
                    return Rat.const(keys.index(k_))
                del base[keys.index(k_)]
                return None
            if attr == "sort" and not args:
                ks_ = [x_ if isinstance(x_, str) else (scalar(x_).const_value() if isinstance(x_, (Rat, int, float)) and not isinstance(x_, bool) and scalar(x_).is_const() else None) for x_ in base]
                if any(k_ is None for k_ in ks_) or len({type(k_) is str for k_ in ks_}) > 1:
                    raise AnalysisError("E3: sort of a list whose order is not decided (line %d)" % node.lineno)
                order_ = sorted(range(len(base)), key=lambda i_: ks_[i_])
                base[:] = [base[i_] for i_ in order_]
                return None
        if attr == "get" and isinstance(base, dict) and 1 <= len(args) <= 2:
            k = dict_key(args[0])
            if isinstance(k, Rat):
                raise AnalysisError("E3: dictionary lookup with a non-constant key (line %d)" % node.lineno)
            return base.get(k, args[1] if len(args) == 2 else None)
        if attr in ("keys", "values", "items") and isinstance(base, dict) and not args:
            return list(getattr(base, attr)())
        if attr == "swapaxes" and len(args) == 2:
            return self.np_call("swapaxes", [base] + list(args), kwargs, node)
        if attr == "transpose" and not args:
            return self.np_transpose(base, node)
        if attr == "transpose" and args:
            axes = args[0] if len(args) == 1 and isinstance(args[0], (list, tuple)) else args
            return self.np_transpose_axes(base, [const_int(a_) for a_ in axes], node)
        if attr == "reshape" and args and not isinstance(base, (dict, str)):
            return self.np_call("reshape", [base] + [tuple(args) if not (len(args) == 1 and isinstance(args[0], (list, tuple))) else args[0]], {}, node)
        if attr in ("all", "any") and isinstance(base, (list, bool, Arr)) and not args:
            return self.np_call(attr, [base], kwargs, node)
        if attr == "clip" and isinstance(base, Arr) and len(args) == 2:
            return self.np_call("clip", [base] + list(args), kwargs, node)
        if attr in ("max", "min", "trace") and not isinstance(base, (dict, str)):
            return self.np_call(attr, [base] + list(args), kwargs, node)
        if attr in ("tolist", "flatten", "ravel") and not args and isinstance(base, Arr):
            if attr == "tolist":
                return base.copy().data
            return Arr(list(base.flat()))
        if attr == "astype" and len(args) == 1 and isinstance(base, Arr):
            r = base.copy()
            r.inherits_dtype = False
            return r
        if attr == "copy" and not args:
            return base.copy() if isinstance(base, Arr) else base
        if attr == "sum" and not args and not kwargs:
            return self.np_call("sum", [base], {}, node)
        if attr == "sum" and not args and set(kwargs) == {"axis"}:
            A = base if isinstance(base, Arr) else materialise(base)
            ax = kwargs["axis"]
            axes = [const_int(a) for a in (ax if isinstance(ax, (tuple, list)) else [ax])]
            if A is None or any(a is None for a in axes):
                return Opaque("%s.sum(axis=%s)" % (vkey(base), vkey(ax)))
            rank = len(A.shape)
            axes = sorted(a % rank for a in axes)

            def red(d, depth):
                if not isinstance(d, list):
                    return Rat.const(int(d)) if isinstance(d, bool) else scalar(d)
                parts = [red(x, depth + 1) for x in d]
                if depth in axes and not parts:
                    # an empty axis: the sum is a zero array whose trailing shape the nested lists do not record; the number 0
                    # broadcasts to it in every arithmetic use, and any use that needs the shape fails as "not an array"
                    return Rat.const(0)
                if depth in axes:
                    def add(u, v):
                        return [add(a, b) for a, b in zip(u, v)] if isinstance(u, list) else u + v
                    tot = parts[0]
                    for q in parts[1:]:
                        tot = add(tot, q)
                    return tot
                return parts
            r = red(A.data, 0)
            return Arr(r) if isinstance(r, list) else r
        if attr in ("lower", "upper", "strip", "lstrip", "rstrip") and isinstance(base, str) and not args:
            return getattr(base, attr)()
        if attr in ("startswith", "endswith") and isinstance(base, str) and len(args) == 1 and isinstance(args[0], str):
            return getattr(base, attr)(args[0])
        if attr == "join" and isinstance(base, str) and len(args) == 1:
            seq = args[0]
            if isinstance(seq, str):
                return base.join(seq)
            if isinstance(seq, (list, tuple)) and all(isinstance(x, str) for x in seq):
                return base.join(seq)
        if attr == "replace" and isinstance(base, str) and len(args) == 2 and all(isinstance(x, str) for x in args):
            return base.replace(args[0], args[1])
        if attr == "setflags" and isinstance(base, (Arr, Opaque)):
            return None            # write protection: no value changes
        if isinstance(base, (list, dict, tuple, str, set)) and not is_tagged(base):
            # a method of a built-in container that is not modelled: an opaque value here would silently drop its effect
            raise AnalysisError("E3: method `%s` of a %s is not modelled (line %d)" % (attr, type(base).__name__, getattr(node, "lineno", 0)))
        if attr in ("sort", "fill", "resize", "put", "itemset", "partition", "byteswap", "setfield") and isinstance(base, (Arr, Opaque)):
            raise AnalysisError("E3: in-place array method `%s` is not modelled (line %d)" % (attr, getattr(node, "lineno", 0)))
        if isinstance(base, (Arr, Rat)) or is_tagged(base):
            # an explicit array or number: an opaque value here would read as "another value" in every comparison
            r_ = self.array_method(base, attr, args, kwargs, node)
            if r_ is not NotImplemented:
                return r_
            raise AnalysisError("E3: method `%s` of %s is not modelled (line %d)"
                                % (attr, "an array" if isinstance(base, Arr) else "a number" if isinstance(base, Rat) else "a %s value" % base[0],
                                   getattr(node, "lineno", 0)))
        return Opaque("%s.%s(%s)" % (vkey(base), attr, ",".join(vkey(a) for a in args)))

    def array_method(self, base, attr, args, kwargs, node):
        """ndarray methods that are numpy functions of the array"""
        if is_tagged(base):
            return NotImplemented
        if attr in ("mean", "prod", "cumsum", "cumprod", "squeeze", "ravel", "flatten", "diagonal", "repeat", "take", "nonzero",
                    "round", "conj", "conjugate", "item", "tolist", "argsort", "argmax", "argmin", "std", "var", "ptp", "compress"):
            if attr in ("conj", "conjugate") and not args and not kwargs:
                return base
            if attr == "item" and not args and not kwargs and isinstance(base, Rat):
                return base
            if attr == "tolist" and isinstance(base, Rat) and not args:
                return base
            if attr in ("argsort", "argmax", "argmin", "std", "var"):
                return self.np_call(attr, [base] + list(args), kwargs, node)
            return self.np_call(attr, [base] + list(args), kwargs, node)
        if attr in ("__len__",) and isinstance(base, Arr) and not args:
            return Rat.const(len(base.data))
        return NotImplemented

    def np_transpose(self, a, node):
        A = a if isinstance(a, Arr) else materialise(a)
        if A is None:
            if isinstance(a, Opaque):
                if a.base.startswith("transpose(") and not a.idx:
                    return Opaque(a.base[len("transpose("):-1], None)
                return Opaque("transpose(%s)" % a.key())
            raise AnalysisError("E3: transpose of %r" % (a,))
        s = A.shape
        if len(s) == 1:
            return A
        if len(s) != 2:
            raise AnalysisError("E3: transpose of rank %d" % len(s))
        return Arr([[A.data[i][j] for i in range(s[0])] for j in range(s[1])])

    def np_transpose_axes(self, a, axes, node):
        A = a if isinstance(a, Arr) else materialise(a)
        if A is None or any(x is None for x in axes) or sorted(axes) != list(range(len(A.shape))):
            raise AnalysisError("E3: transpose with axes %s of %r (line %d)" % (axes, a, getattr(node, "lineno", 0)))
        shape = A.shape
        new_shape = [shape[k] for k in axes]
        import itertools

        def get(idx):
            d = A.data
            for i in idx:
                d = d[i]
            return d

        def build(pre, dims):
            if not dims:
                src = [0] * len(axes)
                for pos, k in enumerate(axes):
                    src[k] = pre[pos]
                return get(src)
            return [build(pre + [i], dims[1:]) for i in range(dims[0])]
        return Arr(build([], new_shape))

    def np_einsum(self, spec, operands, node):
        """explicit-array einsum: the subscripts are expanded into sums over index ranges"""
        import itertools
        spec = spec.replace(" ", "")
        if "." in spec:
            raise AnalysisError("E3: einsum with ellipsis (line %d)" % node.lineno)
        ins, _, out = spec.partition("->")
        ins = ins.split(",")
        if len(ins) != len(operands):
            raise AnalysisError("E3: einsum operand count (line %d)" % node.lineno)
        arrs = []
        for o in operands:
            A = o if isinstance(o, Arr) else (materialise(o) if isinstance(o, (list, tuple, Opaque)) else None)
            if A is None:
                raise AnalysisError("E3: einsum of a non-explicit operand (line %d)" % node.lineno)
            arrs.append(A)
        size = {}
        for sub, A in zip(ins, arrs):
            if len(sub) != len(A.shape):
                raise AnalysisError("E3: einsum subscripts %r do not match rank %d (line %d)" % (sub, len(A.shape), node.lineno))
            for ch, n_ in zip(sub, A.shape):
                if size.setdefault(ch, n_) != n_:
                    raise AnalysisError("E3: einsum dimension mismatch for %r (line %d)" % (ch, node.lineno))
        if "->" not in spec:
            counts = {}
            for sub in ins:
                for ch in sub:
                    counts[ch] = counts.get(ch, 0) + 1
            out = "".join(sorted(ch for ch, c in counts.items() if c == 1))
        summed = [ch for ch in size if ch not in out]

        def get(A, sub, idx):
            d = A.data
            for ch in sub:
                d = d[idx[ch]]
            return scalar(d)

        def build(pos, idx):
            if pos == len(out):
                tot = Rat.const(0)
                for combo in itertools.product(*[range(size[ch]) for ch in summed]):
                    idx2 = dict(idx)
                    idx2.update(zip(summed, combo))
                    term = Rat.const(1)
                    for sub, A in zip(ins, arrs):
                        term = term * get(A, sub, idx2)
                        if term.is_zero():
                            break
                    tot = tot + term
                return tot
            ch = out[pos]
            return [build(pos + 1, dict(idx, **{ch: i})) for i in range(size[ch])]
        r = build(0, {})
        return Arr(r) if isinstance(r, list) else r

    def np_matmul(self, a, b, node):
        A = a if isinstance(a, Arr) else materialise(a)
        B = b if isinstance(b, Arr) else materialise(b)
        if A is None or B is None:
            return Opaque("matmul(%s,%s)" % (vkey(a), vkey(b)))
        ra, rb = len(A.shape), len(B.shape)
        if ra <= 2 and rb <= 2:
            return self.np_dot(A, B, node)
        if ra == 3 and rb == 2:
            return Arr([self.np_dot(Arr(m), B, node).data for m in A.data])
        if ra == 2 and rb == 3:
            return Arr([self.np_dot(A, Arr(m), node).data for m in B.data])
        if ra == 3 and rb == 3 and A.shape[0] == B.shape[0]:
            return Arr([self.np_dot(Arr(x), Arr(y), node).data for x, y in zip(A.data, B.data)])
        if ra == 3 and rb == 1:
            return Arr([self.np_dot(Arr(m), B, node).data for m in A.data])
        if ra == 1 and rb == 3:
            return Arr([self.np_dot(A, Arr(m), node).data for m in B.data])      # v @ stack: one row v.M per matrix
        raise AnalysisError("E3: matmul of shapes %s and %s (line %d)" % (A.shape, B.shape, getattr(node, "lineno", 0)))

    def np_dot(self, a, b, node):
        if isinstance(a, Rat) or isinstance(b, Rat):
            return self.binop(ast.Mult(), a, b, node)
        A = a if isinstance(a, Arr) else materialise(a)
        B = b if isinstance(b, Arr) else materialise(b)
        if A is None or B is None:
            return Opaque("dot(%s,%s)" % (vkey(a), vkey(b)))
        sa, sb = A.shape, B.shape

        def sp(u, v):
            tot = Rat.const(0)
            for x, y in zip(u, v):
                tot = tot + scalar(x) * scalar(y)
            return tot
        try:
            if len(sa) == 1 and len(sb) == 1 and sa == sb:
                return sp(A.data, B.data)
            if len(sa) == 2 and len(sb) == 1 and sa[1] == sb[0]:
                return Arr([sp(row, B.data) for row in A.data])
            if len(sa) == 1 and len(sb) == 2 and sa[0] == sb[0]:
                return Arr([sp(A.data, [B.data[k][j] for k in range(sb[0])]) for j in range(sb[1])])
            if len(sa) == 2 and len(sb) == 2 and sa[1] == sb[0]:
                return Arr([[sp(A.data[i], [B.data[k][j] for k in range(sb[0])]) for j in range(sb[1])]
                            for i in range(sa[0])])
            # numpy.dot(a, b) for N-D b sums over the last axis of a and the second-to-last of b
            if len(sa) == 1 and len(sb) == 3 and sa[0] == sb[1]:
                return Arr([[sp(A.data, [B.data[i][k][j] for k in range(sb[1])]) for j in range(sb[2])]
                            for i in range(sb[0])])
            if len(sa) == 3 and len(sb) == 1 and sa[2] == sb[0]:
                return Arr([[sp(A.data[i][j], B.data) for j in range(sa[1])] for i in range(sa[0])])
        except AnalysisError:
            raise
        raise AnalysisError("E3: dot of shapes %s and %s (line %d)" % (sa, sb, getattr(node, "lineno", 0)))

    def sign_of(self, x, node):
        """sign of a non-constant scalar: an atom (rules may override to enumerate sign patterns)"""
        return func_atom("sign", x)

    def apply_unary(self, fname, x, node):
        x = scalar(x)
        if fname in ("abs", "absolute", "fabs"):
            if x.is_const():
                return Rat.const(abs(x.const_value()))
            if sum_of_squares(x):
                return x                      # |r.r| of a sum of even powers: the value itself
            if len(x.num) == 1 and len(x.den) == 1:
                # a single term: its sign is the sign of the coefficient when every odd-power factor is a principal square root,
                # pi, an absolute value or positive on the input domain
                from . import domain as _domain2
                from .poly import RADICAND as _RAD, ATOM_ARGS as _AA
                ok_ = True
                for p_ in (x.num, x.den):
                    for m_ in p_:
                        for a_, e_ in mono_items(m_):
                            if e_ % 2 and not (a_ == "pi" or (a_.startswith("sqrt(") and a_ in _RAD) or _AA.get(a_, ("",))[0] == "abs"
                                               or _domain2.positive_atom(a_)):
                                ok_ = False
                if ok_:
                    cn_ = next(iter(x.num.values()))
                    cd_ = next(iter(x.den.values()))
                    return x if (cn_ > 0) == (cd_ > 0) else -x
            if sum_of_squares(-x):
                return -x
            from . import domain as _domain
            ds_ = _domain.sign(x)
            if ds_ is not None:
                return x if ds_ > 0 else -x    # a length, a wavelength, ...: positive on the whole input domain
            return func_atom("abs", x)
        if fname in ("round", "rint", "around", "floor", "ceil", "fix"):
            import math as _m
            canon = "round" if fname in ("round", "rint", "around") else fname
            if x.is_const():
                c = x.const_value()
                return Rat.const({"round": round, "floor": _m.floor, "ceil": _m.ceil, "fix": _m.trunc}[canon](c))
            return func_atom(canon, x)
        if fname == "sqrt":
            return sqrt_of(x)
        if fname == "square":
            return x * x
        if fname == "degrees":
            return x * 180 / Rat.atom("pi")
        if fname == "radians":
            return x * Rat.atom("pi") / 180
        if fname in ("cos", "sin", "tan", "arcsin", "arctan"):
            # parity normalisation: f(-x) = +-f(x)
            neg = False
            if x.num:
                from .poly import _sorted_monos
                lead = x.num[_sorted_monos(x.num)[0]]
                if lead < 0:
                    neg = True
                    x = -x
            if x.is_zero():
                return Rat.const(1 if fname == "cos" else 0)
            if fname in ("cos", "sin") and x.atoms() == {"pi"}:
                q = x / Rat.atom("pi")
                if q.is_const():
                    ex = special_angle(fname, q.const_value())
                    if ex is not None:
                        return ex if (fname == "cos" or not neg) else -ex
            from .poly import ATOM_ARGS
            if fname in ("cos", "sin") and not x.is_const() \
                    and (single_atom(x) is None or ATOM_ARGS.get(single_atom(x), ("",))[0] in ("arctan2", "arctan")):
                # a sum of principal values (arcsin(u) - arctan2(a, b) + pi ...): by the addition theorems, so that the same angle
                # reached through another inverse function has the same cosine and sine
                from . import angles as _angles
                dec_ = _angles.decompose(x)
                if dec_ is not None and dec_[0] and all(a_ in ATOM_ARGS and ATOM_ARGS[a_][0] in _angles.RANGES for _c, a_ in dec_[0]):
                    cs_ = _angles.cos_sin(x)
                    if cs_ is not None:
                        r = cs_[0] if fname == "cos" else cs_[1]
                        return r if (fname == "cos" or not neg) else -r
            info = atom_info(x)
            if info is not None and fname in ("cos", "sin") and info[0] in ("arccos", "arcsin"):
                inner = info[1][0]
                same = (fname == "cos") == (info[0] == "arccos")
                r = inner if same else sqrt_of(1 - inner * inner)
                return r if (fname == "cos" or not neg) else -r
            r = func_atom(fname, x)
            return r if (fname == "cos" or not neg) else -r
        if fname == "exp" and x.is_zero():
            return Rat.const(1)
        if fname in ("arccos", "arcsin") and getattr(self, "unit_clip_identity", True):
            # arccos(clip(c, -1, 1)) is arccos(c) wherever arccos(c) exists: the guard against round-off is dropped INSIDE the
            # inverse function only (used anywhere else -- compared, returned -- a clipped value stays what it is)
            info_ = atom_info(x)
            if info_ is not None and info_[0] == "clip" and len(info_[1]) == 3 and info_[1][1].equals(-1) and info_[1][2].equals(1):
                return self.apply_unary(fname, info_[1][0], node)
        if fname == "arccos" and x.is_const() and x.const_value() in (1, 0, -1):
            return {1: Rat.const(0), 0: Rat.atom("pi") / 2, -1: Rat.atom("pi")}[int(x.const_value())]
        return func_atom(fname, x)

    def np_call(self, name, args, kwargs, node):
        if name.startswith("linalg.") or name in ("arccos", "arcsin", "sqrt", "log"):
            self.events.append(("numpy", name, list(args)))      # operations that can fail or warn on invalid data
        r = self._np_call(name, args, kwargs, node)
        if name in ("linalg.inv", "linalg.qr", "linalg.det", "linalg.eig", "clip", "unique", "concatenate"):
            self.np_log.append((name, args, r))
        return r

    def _np_call(self, name, args, kwargs, node):
        if name in ("round", "around", "round_") and (len(args) == 2 or "decimals" in kwargs) and set(kwargs) <= {"decimals"}:
            nd = const_int(args[1] if len(args) == 2 else kwargs["decimals"])
            if nd is None:
                raise AnalysisError("E3: round() to a non-constant number of decimals (line %d)" % node.lineno)
            if nd == 0:
                return self._np_call("round", [args[0]], {}, node)

            def rnd(x_):
                x_ = scalar(x_)
                if x_.is_const():
                    return self.builtin("round", [x_, Rat.const(nd)], {}, node)
                return func_atom("round", x_, Rat.const(nd))        # another value than x: it has lost what lies below 10^-nd
            v = args[0]
            A = v if isinstance(v, Arr) else (materialise(v) if isinstance(v, (list, tuple, Opaque)) else None)
            if A is not None and A.shape != ():
                def recr(d):
                    return [recr(x) for x in d] if isinstance(d, list) else rnd(d)
                return Arr(recr(A.data))
            return rnd(v)
        if name in ELEMENTWISE and len(args) == 1 and not kwargs:
            v = args[0]
            A = v if isinstance(v, Arr) else (materialise(v) if isinstance(v, (list, tuple, Opaque)) else None)
            if A is not None and A.shape != ():
                def rec(d):
                    return [rec(x) for x in d] if isinstance(d, list) else self.apply_unary(name, d, node)
                return Arr(rec(A.data))
            return self.apply_unary(name, v, node)
        if name in ("mod", "fmod", "remainder", "maximum", "minimum") and len(args) == 2 and not kwargs \
                and not any(isinstance(a_, Opaque) and a_.shape is None for a_ in args):
            canon = {"remainder": "mod", "maximum": "max", "minimum": "min"}.get(name, name)

            def f2(x_, y_):
                x_, y_ = scalar(x_), scalar(y_)
                if x_.is_const() and y_.is_const():
                    cx, cy = x_.const_value(), y_.const_value()
                    if canon == "mod" and cy != 0:
                        return Rat.const(cx % cy)
                    if canon in ("max", "min"):
                        return Rat.const(max(cx, cy) if canon == "max" else min(cx, cy))
                if canon in ("max", "min") and (x_.is_const() != y_.is_const()):
                    return self.builtin(canon, [x_, y_], {}, node)      # a constant bound: the same case distinctions as max()/min()
                return func_atom(canon, x_, y_)
            A = args[0] if isinstance(args[0], Arr) else (materialise(args[0]) if isinstance(args[0], (list, tuple, Opaque)) else None)
            B = args[1] if isinstance(args[1], Arr) else (materialise(args[1]) if isinstance(args[1], (list, tuple, Opaque)) else None)

            def rec2(x_, y_):
                if isinstance(x_, list) and isinstance(y_, list):
                    if len(x_) != len(y_):
                        raise AnalysisError("E3: %s of incompatible shapes (line %d)" % (name, node.lineno))
                    return [rec2(p_, q_) for p_, q_ in zip(x_, y_)]
                if isinstance(x_, list):
                    return [rec2(p_, y_) for p_ in x_]
                if isinstance(y_, list):
                    return [rec2(x_, q_) for q_ in y_]
                return f2(x_, y_)
            r_ = rec2(A.data if A is not None else args[0], B.data if B is not None else args[1])
            return Arr(r_) if isinstance(r_, list) else r_
        if name in ("max", "min", "amax", "amin") and len(args) == 1 and not kwargs:
            A = args[0] if isinstance(args[0], Arr) else (materialise(args[0]) if isinstance(args[0], (list, tuple)) else None)
            if A is not None and A.shape != () and 0 not in A.shape:
                vals = [scalar(x_) for x_ in A.flat()]
                canon = "max" if name in ("max", "amax") else "min"
                if all(v_.is_const() for v_ in vals):
                    cs = [v_.const_value() for v_ in vals]
                    return Rat.const(max(cs) if canon == "max" else min(cs))
                return func_atom(canon, *vals)
        if name == "arctan2" and len(args) == 2:
            def plain2_(v_):
                if isinstance(v_, Arr):
                    return v_.data
                if isinstance(v_, (list, tuple, Opaque)):
                    m_ = materialise(v_)
                    if m_ is not None:
                        return m_.data
                return scalar(v_)
            y_, x_ = plain2_(args[0]), plain2_(args[1])
            if isinstance(y_, list) or isinstance(x_, list):
                sy_, sx_ = npext.nd_shape(y_), npext.nd_shape(x_)

                def bad_(msg):
                    raise AnalysisError("E3: arctan2: %s (line %d)" % (msg, node.lineno))
                S_ = npext.broadcast_shapes([sy_, sx_], bad_)
                return Arr(npext.nd_build(S_, lambda ix: func_atom("arctan2", scalar(npext.broadcast_get(y_, sy_, ix) if sy_ else y_),
                                                                   scalar(npext.broadcast_get(x_, sx_, ix) if sx_ else x_))))
            return func_atom("arctan2", y_, x_)
        if name in ("array", "asarray", "ascontiguousarray", "asfarray", "asanyarray", "float64", "float_") and 1 <= len(args) <= 2 \
                and isinstance(args[0], Rat):
            return args[0]            # a 0-d array of one number: the number
        if name in ("array", "asarray", "ascontiguousarray", "asfarray", "asanyarray") and 1 <= len(args) <= 2:
            v = args[0]
            has_dtype = len(args) == 2 or "dtype" in kwargs or name == "asfarray"
            if isinstance(v, Arr):
                r = v.copy()
                r.inherits_dtype = v.inherits_dtype and not has_dtype
                return r
            if isinstance(v, Opaque):
                if v.shape is None:
                    return v
                r = materialise(v)
                if r is None:
                    return v
                r.inherits_dtype = not has_dtype
                return r
            m = materialise(v)
            if m is None:
                raise AnalysisError("E3: array() of %r (line %d)" % (v, node.lineno))
            if not has_dtype and name in ("array", "asarray"):
                # a list of caller-supplied numbers keeps their (possibly integer) dtype
                def from_caller(d):
                    if isinstance(d, (list, tuple)):
                        return all(from_caller(x) for x in d)
                    if isinstance(d, Opaque):
                        return True
                    # a bare input (`tx`, `cell[3]`): an integer when the caller passes one; integer literals next to them do not
                    # change that (numpy.array([tx, 0, 1]) of an int tx is an integer array)
                    return isinstance(d, IRat) or (isinstance(d, Rat) and single_atom(d) is not None and may_be_integer(d))
                leaves = m.flat()
                m.inherits_dtype = from_caller(v) and any(not isinstance(x_, IRat) for x_ in leaves)

                m.int_dtype = bool(leaves) and all(isinstance(x_, IRat) for x_ in leaves)
            return m
        if name == "zeros":
            shp = args[0]
            dims = [const_int(x) for x in (shp if isinstance(shp, (list, tuple)) else [shp])]
            if any(d is None for d in dims):
                raise AnalysisError("E3: zeros of non-constant shape (line %d)" % node.lineno)

            dk_ = dtype_kind(args[1] if len(args) > 1 else kwargs.get("dtype"))
            if dk_ in ("?", "complex"):
                raise AnalysisError("E3: zeros with a dtype that is not modelled (line %d)" % node.lineno)
            zero_ = False if dk_ == "bool" else iconst(0) if dk_ == "int" else Rat.const(0)

            def build(ds):
                return [build(ds[1:]) for _ in range(ds[0])] if ds else zero_
            r_ = Arr(build(dims))
            if dk_ == "int" and 0 not in dims:
                r_.int_dtype = True
            if 0 in dims:
                r_.zshape = tuple(dims)       # the declared shape of an empty array (nested lists cannot carry it)
            return r_
        if name in ("eye", "identity"):
            k = const_int(args[0])
            if k is None:
                raise AnalysisError("E3: eye of non-constant size")
            return Arr([[Rat.const(1 if i == j else 0) for j in range(k)] for i in range(k)])
        if name == "transpose" and len(args) == 1 and "axes" not in kwargs:
            return self.np_transpose(args[0], node)
        if name == "transpose" and (len(args) == 2 or "axes" in kwargs):
            axes = args[1] if len(args) == 2 else kwargs["axes"]
            return self.np_transpose_axes(args[0], [const_int(a_) for a_ in axes], node)
        if name == "dot" and len(args) == 2:
            return self.np_dot(args[0], args[1], node)
        if name == "sum" and len(args) == 1 and set(kwargs) == {"axis"}:
            return self.method_call(args[0], "sum", [], kwargs, node)
        if name == "sum" and len(args) == 1 and not kwargs:
            v = args[0]
            A = v if isinstance(v, Arr) else materialise(v)
            if A is None:
                return Opaque("sum(%s)" % vkey(v))
            tot = Rat.const(0)
            for x in A.flat():
                tot = tot + (Rat.const(int(x)) if isinstance(x, bool) else scalar(x))
            return tot
        if name == "cross" and len(args) == 2:
            A = args[0] if isinstance(args[0], Arr) else materialise(args[0])
            B = args[1] if isinstance(args[1], Arr) else materialise(args[1])
            if A is not None and B is not None and not kwargs and A.shape and B.shape and A.shape[-1] == 3 and B.shape[-1] == 3 \
                    and (len(A.shape) > 1 or len(B.shape) > 1):
                # stacks of 3-vectors: the cross product of corresponding vectors (leading axes broadcast)
                def bad_(msg):
                    raise AnalysisError("E3: cross: %s (line %d)" % (msg, node.lineno))
                S_ = npext.broadcast_shapes([A.shape[:-1], B.shape[:-1]], bad_)

                def one_(ix):
                    a = [scalar(npext.broadcast_get(A.data, A.shape, ix + (k_,))) for k_ in range(3)]
                    b = [scalar(npext.broadcast_get(B.data, B.shape, ix + (k_,))) for k_ in range(3)]
                    return [a[1] * b[2] - a[2] * b[1], a[2] * b[0] - a[0] * b[2], a[0] * b[1] - a[1] * b[0]]
                return Arr(npext.nd_build(S_, one_))
            if A is None or B is None or A.shape != (3,) or B.shape != (3,) or kwargs:
                if A is not None and B is not None:
                    raise AnalysisError("E3: cross of explicit arrays of shapes %s and %s is not modelled (line %d)" % (A.shape, B.shape, node.lineno))
                return Opaque("cross(%s,%s)" % (vkey(args[0]), vkey(args[1])))
            a, b = [scalar(x) for x in A.data], [scalar(x) for x in B.data]
            return Arr([a[1] * b[2] - a[2] * b[1], a[2] * b[0] - a[0] * b[2], a[0] * b[1] - a[1] * b[0]])
        if name == "linalg.norm" and len(args) == 1 and set(kwargs) <= {"axis"}:
            v = args[0]
            A = v if isinstance(v, Arr) else materialise(v)
            if A is not None and A.shape and kwargs.get("axis") is not None:
                # vector norms along one axis of an explicit array
                ax_ = const_int(kwargs["axis"])
                if ax_ is None or not (-len(A.shape) <= ax_ < len(A.shape)):
                    raise AnalysisError("E3: norm along an axis that is not a constant inside the rank (line %d)" % node.lineno)
                lead_ = npext.move_axis_front(A.data, ax_ % len(A.shape))

                def sq_(u_):
                    return [sq_(x_) for x_ in u_] if isinstance(u_, list) else scalar(u_) * scalar(u_)

                def add_(u_, w_):
                    return [add_(p_, q_) for p_, q_ in zip(u_, w_)] if isinstance(u_, list) else u_ + w_
                if not lead_:
                    raise AnalysisError("E3: norm along an empty axis (line %d)" % node.lineno)
                acc_ = sq_(lead_[0])
                for x_ in lead_[1:]:
                    acc_ = add_(acc_, sq_(x_))
                r_ = npext.nd_map(sqrt_of, acc_)
                return Arr(r_) if isinstance(r_, list) else r_
            if A is not None and len(A.shape) == 2 and not kwargs:
                # the default norm of a matrix is the Frobenius norm
                tot = Rat.const(0)
                for x in A.flat():
                    tot = tot + scalar(x) * scalar(x)
                return sqrt_of(tot)
            if A is None or len(A.shape) != 1:
                if A is not None:
                    raise AnalysisError("E3: norm of an explicit array of rank %d is not modelled (line %d)" % (len(A.shape), node.lineno))
                return Opaque("norm(%s)" % vkey(v))
            tot = Rat.const(0)
            for x in A.data:
                tot = tot + scalar(x) * scalar(x)
            return sqrt_of(tot)
        if name == "linalg.inv" and len(args) == 1:
            v = args[0]
            shape = None
            A = v if isinstance(v, Arr) else materialise(v)
            if A is not None:
                shape = A.shape
            elif isinstance(v, Opaque):
                shape = v.shape
            if isinstance(v, Opaque) and v.base.startswith("inv(") and not v.idx:
                return Opaque(v.base[4:-1], shape)
            if A is not None and len(shape) == 3 and shape[1] == shape[2]:
                return Arr([m_.data if isinstance(m_, Arr) else materialise(m_).data
                            for m_ in (self.np_call("linalg.inv", [Arr(x_)], {}, node) for x_ in A.data)])
            if A is not None and len(shape) == 2 and shape[0] == shape[1] and 2 <= shape[0] <= 3 and triangular(A) \
                    and not closed_constant(A) and A._opaque_base() is None:
                # a triangular matrix has a closed-form inverse in its own entries (so inv(inv(T)) is T again)
                ex = exact_inverse(A)
                if ex is not None:
                    return ex
            if A is not None and len(shape) == 2 and shape[0] == shape[1] and shape[0] <= 3 and closed_constant(A):
                ex = exact_inverse(A)
                if ex is None:
                    raise AnalysisError("E3: inverse of a singular constant matrix (line %d)" % getattr(node, "lineno", 0))
                return ex
            if A is not None and len(shape) == 2:
                # homogeneity: inv(s*M) = inv(M)/s for the common positive content s = q*pi^k
                content, prim = array_content(A)
                # inv(X') = inv(X)': use the orientation with the smaller key so that both spellings share one opaque
                primT = self.np_transpose(prim, node)
                use_t = False
                if shape[0] == shape[1] and prim._opaque_base() is None:
                    use_t = primT._opaque_base() is not None or primT.key() < prim.key()
                if use_t:
                    inv = self.np_transpose(materialise(Opaque("inv(%s)" % primT.key(), shape)), node)
                else:
                    inv = Opaque("inv(%s)" % prim.key(), shape)
                if content.equals(1):
                    return inv
                return self.binop(ast.Div(), inv, content, node)
            return Opaque("inv(%s)" % vkey(v), shape)
        if name == "diag" and len(args) == 1:
            A = args[0] if isinstance(args[0], Arr) else materialise(args[0])
            if A is not None and len(A.shape) == 2 and A.shape[0] == A.shape[1]:
                return Arr([A.data[i][i] for i in range(A.shape[0])])
            if A is not None and len(A.shape) == 1:
                k = A.shape[0]
                return Arr([[A.data[i] if i == j else Rat.const(0) for j in range(k)] for i in range(k)])
        if name in ("tril", "triu") and 1 <= len(args) <= 2:
            A = args[0] if isinstance(args[0], Arr) else materialise(args[0])
            k = const_int(args[1]) if len(args) == 2 else 0
            if A is not None and len(A.shape) == 2 and k is not None:
                keep = (lambda i, j: j - i <= k) if name == "tril" else (lambda i, j: j - i >= k)
                isb_ = bool(A.flat()) and all(isinstance(x_, bool) for x_ in A.flat())
                return Arr([[A.data[i][j] if keep(i, j) else (False if isb_ else Rat.const(0)) for j in range(A.shape[1])] for i in range(A.shape[0])])
        if name == "where" and len(args) == 3 and not kwargs:
            # element-wise selection on decided truth values (the comparison that produced them went through the policies)
            def plain(v):
                if isinstance(v, Arr):
                    return v.data
                if isinstance(v, Opaque):
                    m = materialise(v)
                    return m.data if m is not None else v
                return v
            c_, x_, y_ = plain(args[0]), plain(args[1]), plain(args[2])

            def sel(c, x, y):
                if isinstance(c, (list, tuple)):
                    for other in (x, y):
                        if isinstance(other, (list, tuple)) and len(other) != len(c):
                            raise AnalysisError("E3: where() of incompatible shapes (line %d)" % node.lineno)
                    return [sel(ci, x[i] if isinstance(x, (list, tuple)) else x, y[i] if isinstance(y, (list, tuple)) else y) for i, ci in enumerate(c)]
                if isinstance(c, Rat) and c.is_const():
                    c = c.const_value() != 0
                if not isinstance(c, bool):
                    raise Undecided("E3: where() on a condition that is not decided (line %d)" % node.lineno)
                pick = x if c else y
                if isinstance(pick, (list, tuple)):
                    return [p if isinstance(p, (list, tuple)) else scalar(p) for p in pick]
                if isinstance(pick, Opaque):
                    raise AnalysisError("E3: where() selecting from an array of unknown shape (line %d)" % node.lineno)
                return scalar(pick)
            r_ = sel(c_, x_, y_)
            return Arr(r_) if isinstance(r_, list) else r_
        if name == "sign" and len(args) == 1:
            v = args[0]
            A = v if isinstance(v, Arr) else (materialise(v) if isinstance(v, (list, tuple, Opaque)) else None)

            def sg(x):
                x = scalar(x)
                if x.is_const():
                    c = x.const_value()
                    return Rat.const(1 if c > 0 else -1 if c < 0 else 0)
                return self.sign_of(x, node)
            if A is not None and A.shape != ():
                def rec(d):
                    return [rec(x) for x in d] if isinstance(d, list) else sg(d)
                return Arr(rec(A.data))
            return sg(v)
        if name == "modf" and len(args) == 1 and not kwargs:
            # (fractional part with the sign of x, whole part): x - fix(x), fix(x)
            whole = self._np_call("fix", [args[0]], {}, node)
            return (self.binop(ast.Sub(), args[0], whole, node), whole)
        if name == "swapaxes" and len(args) == 3 and not kwargs:
            A_ = args[0] if isinstance(args[0], Arr) else materialise(args[0])
            i_, j_ = const_int(args[1]), const_int(args[2])
            if A_ is not None and i_ is not None and j_ is not None:
                axes_ = list(range(len(A_.shape)))
                axes_[i_], axes_[j_] = axes_[j_], axes_[i_]
                return self.np_transpose_axes(A_, axes_, node)
        if name == "einsum" and len(args) >= 2 and isinstance(args[0], str) and set(kwargs) <= {"order", "optimize"}:
            # (memory layout and contraction order do not change the value)
            return self.np_einsum(args[0], args[1:], node)
        if name == "matmul" and len(args) == 2 and not kwargs:
            return self.np_matmul(args[0], args[1], node)
        if name == "outer" and len(args) == 2:
            A = args[0] if isinstance(args[0], Arr) else materialise(args[0])
            B = args[1] if isinstance(args[1], Arr) else materialise(args[1])
            if A is not None and B is not None:
                return Arr([[scalar(x) * scalar(y) for y in B.flat()] for x in A.flat()])
            return Opaque("outer(%s,%s)" % (vkey(args[0]), vkey(args[1])))
        if name in ("ones", "full") and len(args) >= 1:
            shp = args[0]
            dims = [const_int(x) for x in (shp if isinstance(shp, (list, tuple)) else [shp])]
            if any(d is None for d in dims):
                raise AnalysisError("E3: %s of non-constant shape (line %d)" % (name, node.lineno))
            dk_ = dtype_kind((args[1] if len(args) > 1 else kwargs.get("dtype")) if name == "ones"
                             else (args[2] if len(args) > 2 else kwargs.get("dtype")))
            if dk_ in ("?", "complex"):
                raise AnalysisError("E3: %s with a dtype that is not modelled (line %d)" % (name, node.lineno))
            fv_ = None if name == "ones" else (args[1] if len(args) > 1 else kwargs.get("fill_value"))
            if dk_ == "bool":
                if name == "ones":
                    fill = True
                elif isinstance(fv_, bool):
                    fill = fv_
                else:
                    raise AnalysisError("E3: full(..., dtype=bool) with a fill value that is not a truth value (line %d)" % node.lineno)
            elif isinstance(fv_, bool) and dk_ is None:
                fill = fv_
            else:
                fill = Rat.const(1) if name == "ones" else scalar(fv_)
                if dk_ == "int":
                    if not (fill.is_const() and fill.const_value().denominator == 1):
                        raise AnalysisError("E3: %s with an integer dtype and a fill value that is not an integer constant (line %d)" % (name, node.lineno))
                    fill = iconst(int(fill.const_value()))

            def buildf(ds):
                return [buildf(ds[1:]) for _ in range(ds[0])] if ds else fill
            r_ = Arr(buildf(dims))
            if dk_ == "int" and dims and 0 not in dims:
                r_.int_dtype = True
            return r_
        if name == "trace" and len(args) == 1:
            A = args[0] if isinstance(args[0], Arr) else materialise(args[0])
            if A is not None and len(A.shape) == 2:
                tot = Rat.const(0)
                for i in range(min(A.shape)):
                    tot = tot + scalar(A.data[i][i])
                return tot
        if name == "concatenate" and len(args) == 2 and isinstance(args[0], (list, tuple)) and const_int(args[1]) is not None and not kwargs:
            args, kwargs = [args[0]], {"axis": args[1]}
        if name == "column_stack" and len(args) == 1 and isinstance(args[0], (list, tuple)) and not kwargs:
            cols = []
            for x_ in args[0]:
                P_ = x_ if isinstance(x_, Arr) else materialise(x_)
                if P_ is None:
                    raise AnalysisError("E3: column_stack of a non-explicit array (line %d)" % node.lineno)
                if len(P_.shape) == 1:
                    P_ = Arr([[v_] for v_ in P_.data])
                cols.append(P_)
            return self._np_call("concatenate", [cols], {"axis": Rat.const(1)}, node)
        if name in ("hstack", "vstack", "concatenate", "stack") and len(args) == 1 and isinstance(args[0], (list, tuple)) \
                and set(kwargs) <= {"axis"}:
            parts = [x if isinstance(x, Arr) else materialise(x) for x in args[0]]
            # an empty block (zeros((0, k))) contributes nothing
            parts = [p for p in parts if p is None or (p.shape != () and 0 not in p.shape)] or parts[:1]
            axis = const_int(kwargs.get("axis", 0))
            if all(p is not None for p in parts) and parts and axis is not None:
                ranks = {len(p.shape) for p in parts}
                if len(ranks) == 1:
                    rank = ranks.pop()
                    if name == "stack" and axis == 0:
                        return Arr([p.copy().data for p in parts])
                    if name == "stack" and -(rank + 1) <= axis <= rank and len({p.shape for p in parts}) == 1:
                        # the new axis at position `axis`: stack along 0, then move the leading axis there
                        return Arr(npext.move_front_to([p.copy().data for p in parts], axis % (rank + 1)))
                    if name == "concatenate" and -rank <= axis < 0:
                        axis += rank
                    if name == "hstack":
                        axis = 0 if rank == 1 else 1
                    elif name == "vstack":
                        if rank == 1:
                            return Arr([p.copy().data for p in parts])
                        axis = 0
                    if name != "stack" and rank >= 1 and 0 <= axis < rank:
                        def cat(ds, ax):
                            if ax == 0:
                                out = []
                                for d in ds:
                                    out.extend(d)
                                return out
                            n0 = {len(d) for d in ds}
                            if len(n0) != 1:
                                raise AnalysisError("E3: %s of incompatible shapes (line %d)" % (name, node.lineno))
                            return [cat([d[i] for d in ds], ax - 1) for i in range(n0.pop())]
                        return Arr(cat([p.copy().data for p in parts], axis))
        if name in ("empty_like", "zeros_like", "ones_like") and len(args) == 1:
            A = args[0] if isinstance(args[0], Arr) else materialise(args[0])
            if A is not None:
                r_ = self._np_call({"empty_like": "empty", "zeros_like": "zeros", "ones_like": "ones"}[name],
                                   [tuple(Rat.const(d_) for d_ in A.shape)], {}, node)
                if isinstance(r_, Arr) and "dtype" not in kwargs:
                    # the new array has the dtype of its model: integer input makes it an integer array
                    src_ = args[0]
                    r_.inherits_dtype = bool(getattr(src_, "inherits_dtype", False)) or isinstance(src_, Opaque)
                    r_.int_dtype = bool(getattr(src_, "int_dtype", False))
                return r_
        if name == "reshape" and len(args) >= 2:
            A = args[0] if isinstance(args[0], Arr) else materialise(args[0])
            shp = args[1] if len(args) == 2 and isinstance(args[1], (list, tuple)) else args[1:]
            dims = [const_int(x_) for x_ in shp]
            if A is not None and all(d_ is not None for d_ in dims):
                flat_ = A.flat()
                if dims.count(-1) == 1:
                    known = 1
                    for d_ in dims:
                        if d_ != -1:
                            known *= d_
                    if known and len(flat_) % known == 0:
                        dims[dims.index(-1)] = len(flat_) // known
                tot_ = 1
                for d_ in dims:
                    tot_ *= d_
                if tot_ == len(flat_) and all(d_ >= 0 for d_ in dims):
                    def build_(vals, ds):
                        if len(ds) == 1:
                            return list(vals)
                        step = len(vals) // ds[0] if ds[0] else 0
                        return [build_(vals[i_ * step:(i_ + 1) * step], ds[1:]) for i_ in range(ds[0])]
                    return Arr(build_(flat_, dims))
        if name == "arange" and 1 <= len(args) <= 3 and set(kwargs) <= {"dtype"} and all(const_int(a_) is not None for a_ in args) \
                and dtype_kind(kwargs.get("dtype")) in (None, "float", "int"):
            typed = all(isinstance(a_, IRat) for a_ in args) and dtype_kind(kwargs.get("dtype")) != "float"
            r_ = Arr([iconst(i) if typed else Rat.const(i) for i in range(*[const_int(a_) for a_ in args])])
            r_.int_dtype = typed
            return r_
        if name == "empty" and len(args) >= 1:
            shp = args[0]
            dims = [const_int(x) for x in (shp if isinstance(shp, (list, tuple)) else [shp])]
            if all(d is not None for d in dims):
                cnt = self.__dict__.setdefault("_uninit", [0])

                def builde(ds):
                    if ds:
                        return [builde(ds[1:]) for _ in range(ds[0])]
                    cnt[0] += 1
                    return Rat.atom("uninitialised#%d" % cnt[0])
                return Arr(builde(dims))
        if name == "clip" and len(args) == 3 and not kwargs and not isinstance(args[0], Opaque):
            def bound_(v_):
                if isinstance(v_, (Arr, list, tuple, Opaque)):
                    m_ = v_ if isinstance(v_, Arr) else materialise(v_)
                    if m_ is None:
                        raise AnalysisError("E3: clip() with a bound of unknown shape (line %d)" % node.lineno)
                    return m_.data
                return scalar(v_)
            lo, hi = bound_(args[1]), bound_(args[2])
            A = args[0] if isinstance(args[0], Arr) else (materialise(args[0]) if isinstance(args[0], (list, tuple)) else None)

            def cl(x, l_, h_):
                return func_atom("clip", scalar(x), scalar(l_), scalar(h_))

            def recc(d, l_, h_):
                # bounds broadcast against the trailing axes of the array
                if isinstance(d, list):
                    for b_ in (l_, h_):
                        if isinstance(b_, list) and len(b_) != len(d) and not (d and isinstance(d[0], list)):
                            raise AnalysisError("E3: clip() bounds of another shape (line %d)" % node.lineno)
                    inner = bool(d) and isinstance(d[0], list)
                    return [recc(x, (l_ if inner or not isinstance(l_, list) else l_[i_]), (h_ if inner or not isinstance(h_, list) else h_[i_]))
                            for i_, x in enumerate(d)]
                if isinstance(l_, list) or isinstance(h_, list):
                    raise AnalysisError("E3: clip() of a number with array bounds (line %d)" % node.lineno)
                return cl(d, l_, h_)
            if A is not None and A.shape != ():
                return Arr(recc(A.data, lo, hi))
            if isinstance(args[0], (Rat, int, float)):
                return recc(args[0], lo, hi)
        if name == "sort" and len(args) == 1 and not kwargs:
            A = args[0] if isinstance(args[0], Arr) else (materialise(args[0]) if isinstance(args[0], (list, tuple)) else None)
            if A is not None and len(A.shape) == 1 and all(scalar(x).is_const() for x in A.data):
                return Arr(sorted((scalar(x) for x in A.data), key=lambda r_: r_.const_value()))
        if name == "random.rand" and args and all(const_int(a_) is not None for a_ in args) and not kwargs:
            cnt = self.__dict__.setdefault("_nrand", [0])
            cnt[0] += 1
            return materialise(Opaque("rand#%d" % cnt[0], tuple(const_int(a_) for a_ in args)))
        if name == "linalg.qr" and len(args) == 1 and not kwargs:
            A = args[0] if isinstance(args[0], Arr) else materialise(args[0])
            if A is not None and len(A.shape) == 2 and A.shape[0] >= A.shape[1]:
                # positive homogeneity (trusted identity of the factorisation): qr(s*M) = (Q(M), s*R(M)) for s > 0
                content, prim = array_content(A)
                m, k = A.shape
                q = Opaque("qr(%s).Q" % prim.key(), (m, k))
                r = materialise(Opaque("qr(%s).R" % prim.key(), (k, k)))
                if not content.equals(1):
                    r = self.binop(ast.Mult(), r, content, node)
                return (materialise(q), r)
        if name == "linalg.solve" and len(args) == 2:
            return self.np_dot(self.np_call("linalg.inv", [args[0]], {}, node), args[1], node)
        if name == "linalg.det" and len(args) == 1:
            A = args[0] if isinstance(args[0], Arr) else materialise(args[0])
            if A is not None and len(A.shape) in (2, 3) and A.shape[-1] == A.shape[-2] <= 3 and all(scalar(x).is_const() for x in A.flat()):
                def det_(m):
                    m = [[scalar(x) for x in r] for r in m]
                    if len(m) == 1:
                        return m[0][0]
                    if len(m) == 2:
                        return m[0][0] * m[1][1] - m[0][1] * m[1][0]
                    return (m[0][0] * (m[1][1] * m[2][2] - m[1][2] * m[2][1]) - m[0][1] * (m[1][0] * m[2][2] - m[1][2] * m[2][0])
                            + m[0][2] * (m[1][0] * m[2][1] - m[1][1] * m[2][0]))
                return det_(A.data) if len(A.shape) == 2 else Arr([det_(m) for m in A.data])
            return Rat.atom("det(%s)" % vkey(args[0]))
        if name == "isclose" and len(args) >= 2 and set(kwargs) <= {"rtol", "atol"}:
            # element-wise allclose: one tolerance guard per element
            def shape_(v_):
                A_ = v_ if isinstance(v_, Arr) else materialise(v_) if isinstance(v_, (list, tuple, Opaque)) else None
                return A_
            A_, B_ = shape_(args[0]), shape_(args[1])
            if A_ is None and B_ is None:
                return self._np_call("allclose", args, kwargs, node)
            if (A_ is not None and isinstance(args[0], Opaque) and A_ is None) or (isinstance(args[1], Opaque) and B_ is None):
                raise Undecided("E3: isclose of arrays of unknown shape (line %d)" % node.lineno)

            def rec_(x_, y_):
                if isinstance(x_, list) or isinstance(y_, list):
                    n_ = len(x_) if isinstance(x_, list) else len(y_)
                    return [rec_(x_[i_] if isinstance(x_, list) else x_, y_[i_] if isinstance(y_, list) else y_) for i_ in range(n_)]
                return self._np_call("allclose", [x_, y_] + list(args[2:]), kwargs, node)
            return rec_(A_.data if A_ is not None else scalar(args[0]), B_.data if B_ is not None else scalar(args[1]))
        if name == "allclose" and len(args) >= 2 and set(kwargs) <= {"rtol", "atol"}:
            # all(|a - b| <= atol + rtol*|b|): a tolerance guard.  Folded when it folds; otherwise a rule has to say which side of
            # the guard it analyses (close_policy), or the sign oracle forks on it; never answered silently.
            def tol_(i_, nm_, dflt_):
                v_ = args[i_] if len(args) > i_ else kwargs.get(nm_, dflt_)
                v_ = scalar(v_) if not isinstance(v_, float) else as_rat(v_)
                if not v_.is_const():
                    raise AnalysisError("E3: allclose with a tolerance that is not constant (line %d)" % node.lineno)
                return Fraction(v_.const_value())
            rtol, atol = tol_(2, "rtol", 1e-5), tol_(3, "atol", 1e-8)

            def flat_(v_):
                if isinstance(v_, Arr):
                    return v_.shape, [scalar(x_) for x_ in v_.flat()]
                if isinstance(v_, (list, tuple, Opaque)):
                    m_ = materialise(v_)
                    if m_ is None:
                        return None, None
                    return m_.shape, [scalar(x_) for x_ in m_.flat()]
                return (), [scalar(v_)]
            (sa_, fa_), (sb_, fb_) = flat_(args[0]), flat_(args[1])
            if fa_ is not None and fb_ is not None:
                if sa_ != sb_ and sa_ != () and sb_ != ():
                    raise AnalysisError("E3: allclose of arrays of different shapes (line %d)" % node.lineno)
                n_ = max(len(fa_), len(fb_))
                fa_ = fa_ * n_ if len(fa_) == 1 else fa_
                fb_ = fb_ * n_ if len(fb_) == 1 else fb_
                ds_ = [x_ - y_ for x_, y_ in zip(fa_, fb_)]
                if all(d_.is_zero() for d_ in ds_):
                    return True
                if all(d_.is_const() for d_ in ds_) and all(y_.is_const() for y_ in fb_):
                    return all(abs(Fraction(d_.const_value())) <= atol + rtol * abs(Fraction(y_.const_value())) for d_, y_ in zip(ds_, fb_))
            if fa_ is not None and fb_ is not None:
                # keyed by the differences up to positive content, so that the same guard on a rescaled input is the same guard
                key_ = "close(%s)" % ";".join(canon_sign(d_)[1].key() for d_ in ds_ if not d_.is_zero())
            else:
                key_ = "close(%s,%s)" % (vkey(args[0]), vkey(args[1]))
            guard_ = {"key": key_, "rtol": rtol, "atol": atol, "line": node.lineno, "text": unparse(node)[:80],
                      "pairs": list(zip(fa_, fb_)) if fa_ is not None and fb_ is not None else None}
            pol_ = getattr(self, "close_policy", None)
            if pol_ is not None:
                r_ = pol_(guard_)
                if r_ is not None:
                    self.__dict__.setdefault("tolerance_guards", []).append(dict(guard_, answer=bool(r_)))
                    return bool(r_)
            if isinstance(self.sign_policy, SignOracle):
                so_ = self.sign_policy
                if key_ in so_.assume:
                    so_.used[key_] = so_.assume[key_]
                    return so_.assume[key_] == 1
                raise NeedSign(key_, Rat.atom(key_), node)
            raise Undecided("E3: the tolerance guard `%s` does not fold: the path it selects is not analysed (line %d)" % (guard_["text"], node.lineno))
        if name in ("array_equal", "array_equiv") and len(args) == 2 and not kwargs:
            A_ = args[0] if isinstance(args[0], Arr) else materialise(args[0]) if isinstance(args[0], (list, tuple, Opaque)) else None
            B_ = args[1] if isinstance(args[1], Arr) else materialise(args[1]) if isinstance(args[1], (list, tuple, Opaque)) else None
            if A_ is None or B_ is None:
                raise Undecided("E3: array_equal of arrays that are not explicit (line %d)" % node.lineno)
            if A_.shape != B_.shape:
                return False
            unknown = False
            for x_, y_ in zip(A_.flat(), B_.flat()):
                d_ = scalar(x_) - scalar(y_)
                if d_.is_zero():
                    continue
                if d_.is_const():
                    return False
                unknown = True
            if not unknown:
                return True
            if getattr(self, "generic_equality", False):
                return False          # generic symbolic entries do not coincide with the other operand
            raise Undecided("E3: array_equal of symbolic arrays does not fold (line %d)" % node.lineno)
        if name in ("all", "any") and len(args) == 1 and not kwargs:
            def flatb(v):
                if isinstance(v, bool):
                    return [v]
                if isinstance(v, Arr):
                    return flatb(list(v.flat()))
                if isinstance(v, Rat) and v.is_const():
                    return [v.const_value() != 0]
                if isinstance(v, (list, tuple)):
                    out = []
                    for x in v:
                        f = flatb(x)
                        if f is None:
                            return None
                        out += f
                    return out
                return None
            fb = flatb(args[0])
            if fb is not None:
                return all(fb) if name == "all" else any(fb)
        OPAQUE_OK = ("concatenate", "linalg.qr", "unique", "argsort", "sort", "arange", "clip", "max", "min",
                     "fliplr", "flipud", "mod", "allclose", "random.rand", "linalg.eig", "empty", "hstack", "vstack", "stack", "outer",
                     "trace", "argmin", "argmax", "where", "isclose", "any", "all")
        try:
            r_ = npext.call(self, name, args, kwargs, node)
        except AnalysisError:
            if name not in OPAQUE_OK:
                raise
            r_ = NotImplemented
        if r_ is not NotImplemented:
            return r_
        if name in OPAQUE_OK:
            return self.opaque_call(name, args, kwargs, node)
        raise AnalysisError("E3: numpy function %s unsupported (line %d)" % (name, node.lineno))


def closed_constant(A: Arr):
    """every entry is a closed form: rational combinations of pi and square roots of rationals"""
    from .poly import RADICAND
    for x in A.flat():
        x = scalar(x)
        for a in x.atoms():
            if a == "pi":
                continue
            if a in RADICAND and a.startswith("sqrt(") and RADICAND[a].is_const():
                continue
            return False
    return True


def triangular(A: Arr):
    m = [[scalar(x) for x in r] for r in A.data]
    n_ = len(m)
    up = all(m[i][j].is_zero() for i in range(n_) for j in range(i))
    lo = all(m[i][j].is_zero() for i in range(n_) for j in range(i + 1, n_))
    return (up or lo) and not all(m[i][i].is_zero() for i in range(n_))


def exact_inverse(A: Arr):
    """adjugate / determinant in the normal-form arithmetic (n <= 3); None if singular"""
    n_ = A.shape[0]
    m = [[scalar(x) for x in r] for r in A.data]
    if n_ == 1:
        return None if m[0][0].is_zero() else Arr([[Rat.const(1) / m[0][0]]])
    if n_ == 2:
        det = m[0][0] * m[1][1] - m[0][1] * m[1][0]
        if det.is_zero():
            return None
        return Arr([[m[1][1] / det, -m[0][1] / det], [-m[1][0] / det, m[0][0] / det]])

    def cof(i, j):
        r = [k for k in range(3) if k != i]
        c = [k for k in range(3) if k != j]
        v = m[r[0]][c[0]] * m[r[1]][c[1]] - m[r[0]][c[1]] * m[r[1]][c[0]]
        return v if (i + j) % 2 == 0 else -v
    det = m[0][0] * cof(0, 0) + m[0][1] * cof(0, 1) + m[0][2] * cof(0, 2)
    if det.is_zero():
        return None
    return Arr([[cof(j, i) / det for j in range(3)] for i in range(3)])


def local_names(fn):
    """names a function body binds (assignment, loop, with, import, def): unbound use of one of them is Python's UnboundLocalError"""
    cache = local_names.__dict__.setdefault("cache", {})
    if id(fn) in cache:
        return cache[id(fn)]
    out = set()
    stack = list(getattr(fn, "body", [])) if not isinstance(fn, ast.Lambda) else []
    while stack:
        n_ = stack.pop()
        if isinstance(n_, (ast.FunctionDef, ast.ClassDef)):
            out.add(n_.name)
            continue
        if isinstance(n_, ast.Lambda):
            continue
        if isinstance(n_, ast.Name) and isinstance(n_.ctx, (ast.Store, ast.Del)):
            out.add(n_.id)
        if isinstance(n_, (ast.Import, ast.ImportFrom)):
            for a_ in n_.names:
                out.add((a_.asname or a_.name).split(".")[0])
        if isinstance(n_, (ast.ListComp, ast.SetComp, ast.DictComp, ast.GeneratorExp)):
            continue            # comprehension variables live in their own scope
        stack.extend(ast.iter_child_nodes(n_))
    cache[id(fn)] = out
    return out


def is_generator(fn):
    """does the function body (not nested functions) contain yield?"""
    stack = list(fn.body)
    while stack:
        n_ = stack.pop()
        if isinstance(n_, (ast.Yield, ast.YieldFrom)):
            return True
        if isinstance(n_, (ast.FunctionDef, ast.Lambda, ast.ClassDef)):
            continue
        stack.extend(ast.iter_child_nodes(n_))
    return False


def array_content(A: Arr):
    """common positive content q*prod(scale atoms^k) of all entries; -> (content Rat, primitive Arr)"""
    from fractions import Fraction as F
    flat = [scalar(x) for x in A.flat()]
    q = F(0)
    ks = None
    for x in flat:
        if x.is_zero():
            continue
        _c, qx, kx, _p = split_content(x)
        q = _frac_gcd(q, qx)
        ks = dict(kx) if ks is None else {a: min(k, kx[a]) for a, k in ks.items() if a in kx and (k > 0) == (kx[a] > 0)}
    if not q:
        return Rat.const(1), A
    content = Rat.const(q)
    for a, k in (ks or {}).items():
        content = content * (Rat.atom(a) ** k)

    def rec(d):
        return [rec(x) for x in d] if isinstance(d, list) else scalar(d) / content
    return content, Arr(rec(A.data))


def sym_array(name, shape):
    """a parameter known only as an array of that shape"""
    return Opaque(name, tuple(shape))


def eval_reference(expr: str, env: dict, mod=None):
    """Evaluate a reference closed form written as a Python expression in an
    environment of normal forms (uses the same expression interpreter, so both
    sides of a comparison are canonicalised by the same code)."""
    class _M:
        np_alias = {"n", "np"}
        functions = {}
        imports = {}
    ev = Evaluator(mod or _M(), inline=set())
    tree = ast.parse(expr.strip(), mode="eval")
    return ev.eval(tree.body, dict(env))


def deep_subs(r, mapping):
    """substitute atoms by normal forms, also inside the arguments of function atoms
    and radicands (function atoms are rebuilt through the same constructors, so parity
    and atom re-use normalisations apply)"""
    from .poly import ATOM_ARGS, RADICAND
    r = scalar(r)
    ev = Evaluator(type("M", (), {"np_alias": set(), "functions": {}, "imports": {}})(), inline=set())
    full = {}

    def image(a):
        if a in full:
            return full[a]
        if a in mapping:
            v = scalar(mapping[a])
        elif a in ATOM_ARGS:
            name, args = ATOM_ARGS[a]
            nargs = [rec(x) for x in args]
            if all(x.equals(y) for x, y in zip(args, nargs)):
                v = Rat.atom(a)
            elif len(nargs) == 1 and name in ELEMENTWISE:
                v = ev.apply_unary(name, nargs[0], None)
            else:
                v = func_atom(name, *nargs)
        elif a in RADICAND and a.startswith("sqrt("):
            rad = RADICAND[a]
            nrad = rec(rad)
            v = Rat.atom(a) if nrad.equals(rad) else sqrt_of(nrad)
        else:
            v = Rat.atom(a)
        full[a] = v
        return v

    def rec(x):
        m = {a: image(a) for a in x.atoms()}
        m = {a: v for a, v in m.items() if not v.equals(Rat.atom(a))}
        return x.subs(m) if m else x
    return rec(r)
