"""
xfabsa.core -- loading of /repo's source as syntax trees, the rule-instance
ledger (Ctx), known findings, evidence files and exit codes.

Nothing in this package imports or executes xfab.  The repository is read with
``ast`` on every run (XFAB_REPO overrides the root, used by the self-tests on
scratch copies).
"""
from __future__ import annotations

import ast
import hashlib
import json
import os
import sys
import time
import warnings

VERIF = os.path.dirname(os.path.dirname(os.path.abspath(__file__)))
REPO = os.environ.get("XFAB_REPO", "/repo")

EXIT_OK, EXIT_VIOLATION, EXIT_ANALYSIS = 0, 1, 2


class AnalysisError(Exception):
    """An anchor vanished, an idiom inside an anchored function is not one the
    rule can read, or an instance count fell under its floor.  Never a pass,
    never a VIOLATION: exit 2."""


# --------------------------------------------------------------------------
# source access
# --------------------------------------------------------------------------

_MODCACHE: dict = {}


def repo_path(rel: str) -> str:
    return os.path.join(REPO, rel)


def read_source(rel: str) -> str:
    p = repo_path(rel)
    if not os.path.exists(p):
        raise AnalysisError("anchor vanished: file %s" % rel)
    with open(p, "r", encoding="utf-8", errors="replace") as f:
        return f.read()


class Module:
    """A parsed module with convenience look-ups."""

    def __init__(self, rel: str):
        self.rel = rel
        self.src = read_source(rel)
        with warnings.catch_warnings():
            warnings.simplefilter("ignore")
            try:
                self.tree = ast.parse(self.src, filename=rel)
            except SyntaxError as e:  # pragma: no cover
                raise AnalysisError("cannot parse %s: %s" % (rel, e))
        self.digest = hashlib.sha256(self.src.encode()).hexdigest()[:16]
        self.functions = {}
        self.classes = {}
        self.assigns = {}
        self.assign_chain = {}   # name -> every module-level (re)binding in order (a table may be built in several steps)
        for node in self.tree.body:
            if isinstance(node, ast.FunctionDef):
                self.functions[node.name] = node
            elif isinstance(node, ast.ClassDef):
                self.classes[node.name] = node
            elif isinstance(node, ast.Assign) and len(node.targets) == 1 \
                    and isinstance(node.targets[0], ast.Name):
                self.assigns[node.targets[0].id] = node
                self.assign_chain.setdefault(node.targets[0].id, []).append(node)
            elif isinstance(node, ast.Assign) and len(node.targets) == 1 and isinstance(node.targets[0], (ast.Tuple, ast.List)) \
                    and all(isinstance(e, ast.Name) for e in node.targets[0].elts):
                # A, B, C = <sequence>: each name is bound to one item of the value
                for k, e in enumerate(node.targets[0].elts):
                    item = ast.Subscript(value=node.value, slice=ast.Constant(value=k), ctx=ast.Load())
                    syn = ast.Assign(targets=[ast.Name(id=e.id, ctx=ast.Store())], value=item)
                    ast.copy_location(syn, node)
                    ast.fix_missing_locations(syn)
                    self.assigns[e.id] = syn
                    self.assign_chain.setdefault(e.id, []).append(syn)
            elif isinstance(node, ast.AugAssign) and isinstance(node.target, ast.Name) and node.target.id in self.assigns:
                self.assign_chain[node.target.id].append(node)
        # numpy alias(es) used in this module
        self.np_alias = set()
        self.imports = {}      # local name -> dotted origin
        self._star = []
        for node in ast.walk(self.tree):
            if isinstance(node, ast.Import):
                for a in node.names:
                    self.imports[a.asname or a.name.split(".")[0]] = a.name
                    if a.name == "numpy":
                        self.np_alias.add(a.asname or "numpy")
            elif isinstance(node, ast.ImportFrom):
                pkg = rel.rsplit("/", 1)[0].replace("/", ".") if "/" in rel else ""
                modname = node.module or ""
                if node.level:              # from . import x / from ._p import f
                    up = pkg.split(".")[:len(pkg.split(".")) - (node.level - 1)] if pkg else []
                    modname = ".".join(up + ([modname] if modname else []))
                for a in node.names:
                    if a.name == "*":
                        self._star.append(modname)
                        continue
                    self.imports[a.asname or a.name] = "%s.%s" % (modname, a.name)
        # every function / class / lambda knows the module whose globals it sees
        for node in ast.walk(self.tree):
            if isinstance(node, (ast.FunctionDef, ast.ClassDef, ast.Lambda, ast.AsyncFunctionDef)):
                node._xmod = self
        self._reexport()

    def _reexport(self):
        """names imported back from a PRIVATE module of the package (`from xfab._rotations import u_to_rod`): the public name is
        still a function of this module for every look-up by name; the node keeps its defining module (`_xmod`), and the
        evaluators run it there"""
        def private(dotted_mod):
            parts = dotted_mod.split(".")
            return len(parts) >= 2 and parts[0] == "xfab" and parts[-1].startswith("_") and not parts[-1].startswith("__")
        todo = []
        for local, dotted in list(self.imports.items()):
            m, _, name = dotted.rpartition(".")
            if private(m):
                todo.append((local, m, name))
        for m in self._star:
            if private(m):
                todo.append(("*", m, "*"))
        for local, m, name in todo:
            prel = m.replace(".", "/") + ".py"
            if prel == self.rel or prel in _LOADING:
                continue
            _LOADING.add(prel)
            try:
                other = module(prel)
            except AnalysisError:
                continue
            finally:
                _LOADING.discard(prel)
            if name == "*":
                allnames = None
                if "__all__" in other.assigns:
                    try:
                        allnames = list(ast.literal_eval(other.assigns["__all__"].value))
                    except Exception:
                        allnames = None
                for nm, fn in list(other.functions.items()) + list(other.classes.items()):
                    if (allnames is None and not nm.startswith("_")) or (allnames is not None and nm in allnames):
                        tgt = self.functions if isinstance(fn, ast.FunctionDef) else self.classes
                        tgt.setdefault(nm, fn)
                for nm in other.assigns:
                    if (allnames is None and not nm.startswith("_")) or (allnames is not None and nm in allnames):
                        if nm not in self.assigns and nm not in self.functions:
                            self.imports.setdefault(nm, "%s.%s" % (m, nm))
                continue
            if name in other.functions and local not in self.functions:
                self.functions[local] = other.functions[name]
                self.imports.pop(local, None)
            elif name in other.classes and local not in self.classes:
                self.classes[local] = other.classes[name]
                self.imports.pop(local, None)

    def func(self, name: str) -> ast.FunctionDef:
        if name not in self.functions:
            raise AnalysisError("anchor vanished: function %s in %s" % (name, self.rel))
        return self.functions[name]

    def klass(self, name: str) -> ast.ClassDef:
        if name not in self.classes:
            raise AnalysisError("anchor vanished: class %s in %s" % (name, self.rel))
        return self.classes[name]

    def method(self, cls: str, name: str) -> ast.FunctionDef:
        c = self.klass(cls)
        for node in c.body:
            if isinstance(node, ast.FunctionDef) and node.name == name:
                return node
        raise AnalysisError("anchor vanished: method %s.%s in %s" % (cls, name, self.rel))

    def methods(self, cls: str, name: str):
        c = self.klass(cls)
        return [n for n in c.body if isinstance(n, ast.FunctionDef) and n.name == name]


_LOADING = set()


def module(rel: str) -> Module:
    if rel not in _MODCACHE:
        _MODCACHE[rel] = Module(rel)
    return _MODCACHE[rel]


def all_repo_python_files():
    out = []
    for root, dirs, files in os.walk(REPO):
        dirs[:] = [d for d in dirs if d not in (".git", "__pycache__", "build", "dist")
                   and not d.endswith(".egg-info")]
        for f in files:
            if f.endswith(".py"):
                out.append(os.path.relpath(os.path.join(root, f), REPO))
    return sorted(out)


def loc(mod: Module | str, node) -> str:
    rel = mod.rel if isinstance(mod, Module) else mod
    home = getattr(node, "_xmod", None)
    if home is not None and isinstance(mod, Module):
        rel = home.rel      # a function imported back from a private module is reported where it is written
    return "%s:%s" % (rel, getattr(node, "lineno", "?"))


def unparse(node) -> str:
    try:
        return ast.unparse(node)
    except Exception:  # pragma: no cover
        return "<%s>" % type(node).__name__


def body_wo_doc(fn):
    """Function body without its docstring."""
    body = list(fn.body)
    if body and isinstance(body[0], ast.Expr) and isinstance(body[0].value, ast.Constant) \
            and isinstance(body[0].value.value, str):
        body = body[1:]
    return body


# --------------------------------------------------------------------------
# ledger
# --------------------------------------------------------------------------

class Ctx:
    """Ledger of rule instances of one property run."""

    def __init__(self, pid: str, tier: str):
        self.pid = pid
        self.tier = tier
        self.t0 = time.time()
        self.instances = 0            # rule instances examined
        self.nontrivial = set()       # distinct non-trivial instance keys
        self.fails = []               # dicts: key,msg,loc,data
        self.samples = []
        self.rules = {}               # rule -> [count, text]
        self.analysed = {"files": set(), "functions": set()}
        self.notes = []
        self.assumptions = []
        self.not_decided = []
        self.extra = {}
        self.obligations = 0
        self.discharged = 0

    # -- rule bookkeeping
    def rule(self, name: str, text: str):
        self.rules.setdefault(name, [0, text])

    def _count(self, key: str):
        self.instances += 1
        r = key.split(":")[1] if key.count(":") >= 1 else key
        if r not in self.rules:
            self.rules[r] = [0, ""]
        self.rules[r][0] += 1

    def ok(self, key: str, nontrivial: bool = True, sample=None, obligation: bool = True):
        self._count(key)
        if obligation:
            self.obligations += 1
            self.discharged += 1
        if nontrivial:
            self.nontrivial.add(key)
        if sample is not None and len(self.samples) < 12:
            self.samples.append({"instance": key, "detail": sample})

    def fail(self, key: str, msg: str, where: str = "", **data):
        self._count(key)
        self.obligations += 1
        self.nontrivial.add(key)
        self.fails.append({"key": key, "msg": msg, "where": where, "data": data})

    def check(self, cond: bool, key: str, msg: str, where: str = "", sample=None, **data):
        if cond:
            self.ok(key, sample=sample)
        else:
            self.fail(key, msg, where, **data)
        return cond

    def saw(self, mod: Module, fn=None):
        self.analysed["files"].add(mod.rel + "@" + mod.digest)
        if fn is not None:
            self.analysed["functions"].add("%s:%s" % (mod.rel, fn if isinstance(fn, str) else fn.name))

    def note(self, s: str):
        self.notes.append(s)

    def floor(self, what: str, n: int, floor: int):
        """Instance floor: a rule matching fewer sites than confirmed by hand
        is broken, not passing."""
        if n < floor:
            raise AnalysisError("instance floor: %s matched %d < %d" % (what, n, floor))
        self.extra.setdefault("floors", {})[what] = {"matched": n, "floor": floor}


# --------------------------------------------------------------------------
# known findings
# --------------------------------------------------------------------------

def load_known():
    p = os.path.join(VERIF, "known_findings.json")
    if not os.path.exists(p):
        return {"known": [], "fixed": []}
    with open(p) as f:
        return json.load(f)


# --------------------------------------------------------------------------
# finish: evidence, replay, exit code
# --------------------------------------------------------------------------

def _jsonable(x):
    if isinstance(x, (set, frozenset)):
        return sorted(_jsonable(i) for i in x)
    if isinstance(x, dict):
        return {str(k): _jsonable(v) for k, v in x.items()}
    if isinstance(x, (list, tuple)):
        return [_jsonable(i) for i in x]
    if isinstance(x, (str, int, float, bool)) or x is None:
        return x
    return str(x)


def finish(ctx: Ctx, explanation: str, level: str = "other", exhaustive=None,
           only_keys=None) -> int:
    known = {k["key"]: k for k in load_known().get("known", []) if k.get("property") == ctx.pid}
    violations = []
    knownhits = []
    for f in ctx.fails:
        if f["key"] in known:
            knownhits.append(f)
        else:
            violations.append(f)
    wall = time.time() - ctx.t0
    seed = int(os.environ.get("VERIF_SEED", "0") or 0)
    cov = {
        "explanation": explanation,
        "evaluations": ctx.instances,
        "distinct_nontrivial": len(ctx.nontrivial),
        "rule": "one evaluation = one rule instance decided on a construct of /repo's "
                "current source (function, call site, table row, configuration); "
                "non-trivial = counted once per distinct key rule:construct, excluding "
                "instances flagged trivial by the rule (identity rows, syntactically "
                "identical sides)",
        "obligations": ctx.obligations,
        "discharged": ctx.discharged,
        "samples": ctx.samples[:12] or [{"instance": "none"}],
        "rules": {k: {"instances": v[0], "text": v[1]} for k, v in sorted(ctx.rules.items())},
        "analysed": _jsonable(ctx.analysed),
        "known_findings_reported": [f["key"] for f in knownhits],
        "not_decided": ctx.not_decided,
        "notes": ctx.notes[:40],
        "checker_cmd": "./check %s --tier %s" % (ctx.pid, ctx.tier),
        "trusted_base": ["CPython ast parser", "xfabsa checker code and /verif/refs closed forms"],
    }
    if exhaustive is not None:
        cov["exhaustive"] = bool(exhaustive)
    cov.update(_jsonable(ctx.extra))
    ev = {
        "property_id": ctx.pid,
        "tier": ctx.tier,
        "seed": seed,
        "level": level,
        "coverage": cov,
        "assumptions": ctx.assumptions,
        "wall_s": round(wall, 3),
        "violations": len(violations),
    }
    evdir = os.environ.get("XFAB_EVIDENCE_DIR") or os.path.join(VERIF, "evidence")
    os.makedirs(evdir, exist_ok=True)
    evp = os.path.join(evdir, "%s.json" % ctx.pid)
    tmp = evp + ".tmp%d" % os.getpid()
    with open(tmp, "w") as f:
        json.dump(ev, f, indent=1, sort_keys=True)
        f.write("\n")
    os.replace(tmp, evp)

    print("[%s/%s] %d rule instances, %d distinct non-trivial, %d failing (%d known), %.2fs"
          % (ctx.pid, ctx.tier, ctx.instances, len(ctx.nontrivial), len(ctx.fails),
             len(knownhits), wall))
    for r, (cnt, text) in sorted(ctx.rules.items()):
        print("  rule %-28s %5d instances" % (r, cnt))
    seenk = set()
    for f in knownhits:
        if f["key"] in seenk:
            continue
        seenk.add(f["key"])
        print("KNOWN-FINDING: property=%s %s %s" % (ctx.pid, f["key"], f["msg"]))
    if violations:
        rdir = os.environ.get("XFAB_EVIDENCE_DIR") or os.path.join(VERIF, "replay")
        os.makedirs(rdir, exist_ok=True)
        rp = os.path.join(rdir, "%s.replay.json" % ctx.pid)
        with open(rp, "w") as f:
            json.dump({"property": ctx.pid, "tier": ctx.tier, "repo": REPO,
                       "violations": _jsonable(violations)}, f, indent=1)
        for v in violations[:60]:
            print("  FAIL %s @ %s: %s" % (v["key"], v["where"], v["msg"]))
        if len(violations) > 60:
            print("  ... %d more in %s" % (len(violations) - 60, rp))
        print("VIOLATION property=%s replay=%s" % (ctx.pid, rp))
        return EXIT_VIOLATION
    return EXIT_OK


# --------------------------------------------------------------------------
# structural pattern matching with metavariables
# --------------------------------------------------------------------------

def _pat(src, mode):
    return ast.parse(src.strip(), mode=mode)


class Binds(dict):
    """bindings of a successful match: truthy even when empty"""

    def __bool__(self):
        return True


def match(pattern, node, binds=None, np_alias=None):
    """Structural match of an AST against a pattern AST.  In the pattern, a Name whose id starts with `M_`
    is a metavariable for an identifier (bound consistently in `binds`), `X_` prefixed names match any
    expression (bound to its dump), and the name `NP` matches any numpy alias of the module.
    Returns the binding dict or None."""
    binds = {} if binds is None else binds

    def m(p, n):
        if isinstance(p, ast.Name):
            if p.id.startswith("M_"):
                if not isinstance(n, ast.Name):
                    return False
                if p.id in binds:
                    return binds[p.id] == n.id
                binds[p.id] = n.id
                return True
            if p.id.startswith("X_"):
                if not isinstance(n, ast.AST):
                    return False
                d = ast.dump(n)
                if p.id in binds:
                    return binds[p.id] == d
                binds[p.id] = d
                return True
            if p.id == "NP":
                return isinstance(n, ast.Name) and (np_alias is None or n.id in np_alias)
            return isinstance(n, ast.Name) and n.id == p.id
        if isinstance(p, ast.arg):
            return isinstance(n, ast.arg) and (p.arg == n.arg or p.arg.startswith("M_"))
        if isinstance(p, ast.Constant):
            if not isinstance(n, ast.Constant):
                return False
            a, b = p.value, n.value
            if isinstance(a, (int, float)) and isinstance(b, (int, float)) and not isinstance(a, bool) and not isinstance(b, bool):
                return float(a) == float(b)
            return a == b and type(a) is type(b)
        if isinstance(p, ast.AST):
            if type(p) is not type(n):
                return False
            for f in p._fields:
                if f in ("ctx", "type_comment", "kind"):
                    continue
                if not m(getattr(p, f, None), getattr(n, f, None)):
                    return False
            return True
        if isinstance(p, list):
            return isinstance(n, list) and len(p) == len(n) and all(m(a, b) for a, b in zip(p, n))
        return p == n
    saved = dict(binds)
    if m(pattern, node):
        if not isinstance(binds, Binds):
            b2 = Binds(binds)
            binds.update(b2)
            return b2
        return binds
    binds.clear()
    binds.update(saved)
    return None


def match_stmt(src, node, binds=None, np_alias=None):
    p = _pat(src, "exec").body
    if len(p) != 1:
        raise ValueError("pattern must be one statement")
    return match(p[0], node, binds, np_alias)


def match_expr(src, node, binds=None, np_alias=None):
    return match(_pat(src, "eval").body, node, binds, np_alias)


def find_stmt(src, root, binds=None, np_alias=None):
    """all statements under root matching the pattern (each with its own copy of the bindings)"""
    out = []
    for n in ast.walk(root):
        if isinstance(n, ast.stmt):
            b = dict(binds or {})
            if match_stmt(src, n, b, np_alias) is not None:
                out.append((n, b))
    return out
