"""
Normal forms of the field Q(atoms) extended by square-root atoms and by the
torus relation sin(x)^2 = 1 - cos(x)^2 (E3's value domain).

A polynomial is a dict  monomial -> Fraction  with monomial a sorted tuple of
(atom, exponent) pairs; a rational function is a pair (num, den).  Atoms are
strings.  Two kinds of atoms carry a defining relation:

  * "sqrt(<key>)"  with  RADICAND[atom] = Rat  :  atom**2 == radicand
  * "sin(<key>)"   :  atom**2 == 1 - cos(<key>)**2

After reduction every such atom has exponent <= 1, which is a canonical form
of Q(c, other)[s]/(s^2 + c^2 - 1) and of a quadratic extension whose radicand
is not a square; so *equal functions have equal forms* there, and unequal forms
are unequal functions.  Where a radicand happens to be a perfect square, or
two radicals are algebraically dependent, the form is merely not canonical:
the comparison can then say "different" for equal functions, never "equal" for
different ones.
"""
from __future__ import annotations

from fractions import Fraction

ONE = ()

RADICAND: dict = {}     # sqrt atom -> Rat


def _mono_mul(m1, m2):
    if not m1:
        return m2
    if not m2:
        return m1
    d = dict(m1)
    for a, e in m2:
        d[a] = d.get(a, 0) + e
    return tuple(sorted((a, e) for a, e in d.items() if e))


def p_const(c):
    c = Fraction(c)
    return {ONE: c} if c else {}


def p_atom(a):
    return {((a, 1),): Fraction(1)}


def p_add(p, q, cq=1):
    r = dict(p)
    for m, c in q.items():
        v = r.get(m, 0) + c * cq
        if v:
            r[m] = v
        else:
            r.pop(m, None)
    return r


def p_mul(p, q):
    r = {}
    for m1, c1 in p.items():
        for m2, c2 in q.items():
            m = _mono_mul(m1, m2)
            v = r.get(m, 0) + c1 * c2
            if v:
                r[m] = v
            else:
                r.pop(m, None)
    return r


def p_scale(p, c):
    c = Fraction(c)
    return {m: v * c for m, v in p.items()} if c else {}


def p_pow(p, n):
    r = p_const(1)
    for _ in range(n):
        r = p_mul(r, p)
    return r


def p_is_const(p):
    return all(m == ONE for m in p)


def p_const_value(p):
    return p.get(ONE, Fraction(0))


def p_atoms(p):
    s = set()
    for m in p:
        for a, e in m:
            s.add(a)
    return s


def _reducible(atom):
    return atom.startswith("sin(") or atom in RADICAND


def _relation(atom):
    """atom**2 as a Rat (num, den) of polynomials"""
    if atom.startswith("sin("):
        c = "cos(" + atom[4:]
        return (p_add(p_const(1), p_pow(p_atom(c), 2), -1), p_const(1))
    r = RADICAND[atom]
    return (r.num, r.den)


def p_reduce(p):
    """polynomial -> (num, den) with every relation atom at exponent <= 1"""
    num, den = p, p_const(1)
    for _ in range(64):
        target = None
        for m in num:
            for a, e in m:
                if e >= 2 and _reducible(a):
                    target = a
                    break
            if target:
                break
        if target is None:
            return num, den
        rn, rd = _relation(target)
        # num = sum_k c_k * s^k ;  s^(2j) = (rn/rd)^j
        maxj = 0
        parts = []
        for m, c in num.items():
            e = 0
            rest = []
            for a, ex in m:
                if a == target:
                    e = ex
                else:
                    rest.append((a, ex))
            parts.append((tuple(rest), e, c))
            maxj = max(maxj, e // 2)
        new = {}
        rn_pows = [p_const(1)]
        rd_pows = [p_const(1)]
        for j in range(maxj):
            rn_pows.append(p_mul(rn_pows[-1], rn))
            rd_pows.append(p_mul(rd_pows[-1], rd))
        for rest, e, c in parts:
            j = e // 2
            base = {rest: c}
            if e % 2:
                base = p_mul(base, p_atom(target))
            term = p_mul(p_mul(base, rn_pows[j]), rd_pows[maxj - j])
            new = p_add(new, term)
        num = new
        den = p_mul(den, rd_pows[maxj])
    raise RuntimeError("reduction did not terminate")


def _cancel_monomial_content(num, den):
    """divide numerator and denominator by their common monomial factor"""
    common = None
    for p in (num, den):
        for m in p:
            d = dict(m)
            if common is None:
                common = d
            else:
                common = {a: min(e, d[a]) for a, e in common.items() if a in d}
            if not common:
                return num, den
    if not common:
        return num, den

    def div(p):
        out = {}
        for m, c in p.items():
            d = dict(m)
            for a, e in common.items():
                d[a] -= e
            out[tuple(sorted((a, e) for a, e in d.items() if e))] = c
        return out
    return div(num), div(den)


def _needs_reduce(p):
    for m in p:
        for a, e in m:
            if e >= 2 and _reducible(a):
                return True
    return False


class Rat:
    """rational function num/den (polynomials, reduced w.r.t. the relations)"""
    __slots__ = ("num", "den")

    def __init__(self, num, den=None, _reduced=False):
        if den is None:
            den = p_const(1)
        if not den:
            raise ZeroDivisionError("zero denominator in normal form")
        if not _reduced:
            for _ in range(16):
                if not (_needs_reduce(num) or _needs_reduce(den)):
                    break
                n1, d1 = p_reduce(num)
                n2, d2 = p_reduce(den)
                # (n1/d1)/(n2/d2)
                num, den = p_mul(n1, d2), p_mul(d1, n2)
            else:
                raise RuntimeError("rational reduction did not terminate")
            if not den:
                raise ZeroDivisionError("zero denominator in normal form")
        if not num:
            den = p_const(1)
        elif not p_is_const(den):
            num, den = _cancel_monomial_content(num, den)
        if p_is_const(den):
            c = p_const_value(den)
            if c != 1:
                num = p_scale(num, 1 / c)
                den = p_const(1)
        self.num, self.den = num, den

    # construction
    @staticmethod
    def const(c):
        return Rat(p_const(c), None, True)

    @staticmethod
    def atom(a):
        return Rat(p_atom(a), None, True)

    # arithmetic
    def __add__(self, o):
        o = as_rat(o)
        if self.den == o.den:
            return Rat(p_add(self.num, o.num), self.den)
        return Rat(p_add(p_mul(self.num, o.den), p_mul(o.num, self.den)), p_mul(self.den, o.den))

    __radd__ = __add__

    def __neg__(self):
        return Rat(p_scale(self.num, -1), self.den, True)

    def __sub__(self, o):
        return self + (-as_rat(o))

    def __rsub__(self, o):
        return as_rat(o) + (-self)

    def __mul__(self, o):
        o = as_rat(o)
        return Rat(p_mul(self.num, o.num), p_mul(self.den, o.den))

    __rmul__ = __mul__

    def __truediv__(self, o):
        o = as_rat(o)
        if not o.num:
            raise ZeroDivisionError("division by the zero normal form")
        return Rat(p_mul(self.num, o.den), p_mul(self.den, o.num))

    def __rtruediv__(self, o):
        return as_rat(o) / self

    def __pow__(self, n):
        if isinstance(n, Rat):
            if not n.is_const():
                raise ValueError("symbolic exponent")
            n = n.const_value()
        n = Fraction(n)
        if n.denominator != 1:
            raise ValueError("non-integer exponent %s" % n)
        n = int(n)
        if n < 0:
            return Rat.const(1) / (self ** (-n))
        return Rat(p_pow(self.num, n), p_pow(self.den, n))

    # queries
    def is_zero(self):
        return not self.num

    def is_const(self):
        return p_is_const(self.num) and p_is_const(self.den)

    def const_value(self):
        return p_const_value(self.num) / p_const_value(self.den)

    def equals(self, o):
        o = as_rat(o)
        return (self - o).is_zero()

    def atoms(self):
        return p_atoms(self.num) | p_atoms(self.den)

    def subs(self, mapping):
        """substitute atoms by Rats (mapping: atom -> Rat)"""
        def sp(p):
            tot = Rat.const(0)
            for m, c in p.items():
                t = Rat.const(c)
                for a, e in m:
                    v = mapping.get(a)
                    if v is None:
                        v = Rat.atom(a)
                    t = t * (v ** e)
                tot = tot + t
            return tot
        return sp(self.num) / sp(self.den)

    def key(self):
        """canonical string (canonical when den is constant; otherwise the
        denominator is made monic in its first monomial)"""
        num, den = self.num, self.den
        if not p_is_const(den):
            lead = den[sorted(den)[0]]
            if lead != 1:
                num = p_scale(num, 1 / lead)
                den = p_scale(den, 1 / lead)
            return "(%s)/(%s)" % (p_str(num), p_str(den))
        return p_str(num)

    def __repr__(self):
        return self.key()


def p_str(p):
    if not p:
        return "0"
    parts = []
    for m in sorted(p):
        c = p[m]
        mon = "*".join(a if e == 1 else "%s^%d" % (a, e) for a, e in m)
        if not mon:
            parts.append(str(c))
        elif c == 1:
            parts.append(mon)
        elif c == -1:
            parts.append("-" + mon)
        else:
            parts.append("%s*%s" % (c, mon))
    s = " + ".join(parts).replace("+ -", "- ")
    return s


def as_rat(x):
    if isinstance(x, Rat):
        return x
    if isinstance(x, bool):
        raise TypeError("bool is not a number here")
    if isinstance(x, int):
        return Rat.const(x)
    if isinstance(x, Fraction):
        return Rat.const(x)
    if isinstance(x, float):
        return Rat.const(Fraction(repr(x)))
    raise TypeError("not a scalar normal form: %r" % (x,))


ATOM_ARGS: dict = {}     # function atom -> (name, [Rat args])


def _frac_gcd(a: Fraction, b: Fraction) -> Fraction:
    from math import gcd
    if a == 0:
        return abs(b)
    if b == 0:
        return abs(a)
    return Fraction(gcd(a.numerator * b.denominator, b.numerator * a.denominator),
                    a.denominator * b.denominator)


def p_content(p, scale_atoms=("pi",)):
    """(positive rational content, {scale atom: min exponent}) of a polynomial"""
    c = Fraction(0)
    exps = None
    for m, v in p.items():
        c = _frac_gcd(c, v)
        d = {a: e for a, e in m if a in scale_atoms}
        if exps is None:
            exps = d
        else:
            exps = {a: min(e, d[a]) for a, e in exps.items() if a in d}
    return (c if c else Fraction(1)), (exps or {})


def split_content(r: "Rat"):
    """r = content * primitive, content = q * pi^k (q > 0 rational)"""
    cn, en = p_content(r.num)
    cd, ed = p_content(r.den)
    q = cn / cd
    k = en.get("pi", 0) - ed.get("pi", 0)
    content = Rat.const(q) * (Rat.atom("pi") ** k if k else Rat.const(1))
    return content, q, k, r / content


def sqrt_of(r: Rat) -> Rat:
    """square root as an atom with relation atom^2 = r.  Positive content that
    is a perfect square (rational squares, even powers of pi) is pulled out;
    a radicand equal (as a normal form) to an earlier one reuses that atom."""
    from math import isqrt
    r = as_rat(r)
    if r.is_zero():
        return Rat.const(0)
    content, q, k, prim = split_content(r)
    n, d = q.numerator, q.denominator
    outside = Rat.const(1)
    if isqrt(n) ** 2 == n and isqrt(d) ** 2 == d and k % 2 == 0:
        outside = Rat.const(Fraction(isqrt(n), isqrt(d))) * (Rat.atom("pi") ** (k // 2) if k else Rat.const(1))
        r = prim
    if r.is_const():
        v = r.const_value()
        if v == 1:
            return outside
        if v > 0:
            n, d = v.numerator, v.denominator
            if isqrt(n) ** 2 == n and isqrt(d) ** 2 == d:
                return outside * Rat.const(Fraction(isqrt(n), isqrt(d)))
    for a, rad in RADICAND.items():
        if rad.equals(r):
            return outside * Rat.atom(a)
    a = "sqrt(%s)" % r.key()
    RADICAND[a] = r
    return outside * Rat.atom(a)


def func_atom(name: str, *args) -> Rat:
    args = [as_rat(a) for a in args]
    for a, (nm, ar) in ATOM_ARGS.items():
        if nm == name and len(ar) == len(args) and all(x.equals(y) for x, y in zip(ar, args)):
            return Rat.atom(a)
    a = "%s(%s)" % (name, ",".join(x.key() for x in args))
    ATOM_ARGS[a] = (name, args)
    return Rat.atom(a)


def atom_info(r: Rat):
    """if r is exactly one function atom -> (name, args) else None"""
    if len(r.num) == 1 and p_is_const(r.den):
        (m, c), = r.num.items()
        if c == 1 and len(m) == 1 and m[0][1] == 1:
            return ATOM_ARGS.get(m[0][0])
    return None
