"""
Normal forms of the field Q(atoms) extended by square-root atoms and by the
torus relation sin(x)^2 = 1 - cos(x)^2 (E3's value domain).

A polynomial is a dict  monomial -> Fraction  with monomial a sorted tuple of
(atom, exponent) pairs; a rational function is a pair (num, den).  Atoms are
strings.  Two kinds of atoms carry a defining relation:

  * "sqrt(<key>)"  with  RADICAND[atom] = Rat  :  atom**2 == radicand
  * "sin(<key>)"   :  atom**2 == 1 - cos(<key>)**2

After reduction every such atom has exponent <= 1, which is a canonical form
of Q(c, other)[s]/(s^2 + c^2 - 1) and of a quadratic extension whose radicand
is not a square; so *equal functions have equal forms* there, and unequal forms
are unequal functions.  Where a radicand happens to be a perfect square, or
two radicals are algebraically dependent, the form is merely not canonical:
the comparison can then say "different" for equal functions, never "equal" for
different ones.
"""
from __future__ import annotations

from fractions import Fraction

BITS = 10
MASK = (1 << BITS) - 1
ONE = 0

ATOMS: list = []        # index -> atom name
ATOM_ID: dict = {}      # atom name -> index
RADICAND: dict = {}     # sqrt-like atom -> Rat   (atom**2 == RADICAND[atom]); use set_relation()
_REDUCIBLE: set = set()  # indices of atoms that carry a relation


def atom_id(a: str) -> int:
    i = ATOM_ID.get(a)
    if i is None:
        i = len(ATOMS)
        ATOMS.append(a)
        ATOM_ID[a] = i
        if a.startswith("sin(") or a in RADICAND:
            _REDUCIBLE.add(i)
    return i


def set_relation(atom: str, radicand) -> None:
    """declare atom**2 == radicand (a Rat)"""
    RADICAND[atom] = radicand
    _REDUCIBLE.add(atom_id(atom))


def clear_relation(atom: str) -> None:
    RADICAND.pop(atom, None)
    _REDUCIBLE.discard(atom_id(atom))


def mono_items(m: int):
    """packed monomial -> [(atom name, exponent)] sorted by atom name"""
    out = []
    i = 0
    while m:
        e = m & MASK
        if e:
            out.append((ATOMS[i], e))
        m >>= BITS
        i += 1
    out.sort()
    return out


def mono_of(items) -> int:
    m = 0
    for a, e in items:
        m += e << (BITS * atom_id(a))
    return m


def mono_exp(m: int, idx: int) -> int:
    return (m >> (BITS * idx)) & MASK


def _mono_mul(m1, m2):
    return m1 + m2


def p_const(c):
    c = Fraction(c)
    return {ONE: c} if c else {}


def p_atom(a):
    return {1 << (BITS * atom_id(a)): Fraction(1)}


def p_add(p, q, cq=1):
    r = dict(p)
    for m, c in q.items():
        v = r.get(m, 0) + c * cq
        if v:
            r[m] = v
        else:
            r.pop(m, None)
    return r


def _to_int_poly(p):
    """-> (list of (mono, int coeff), common denominator)"""
    den = 1
    for c in p.values():
        d = c.denominator
        if d != 1 and den % d:
            from math import gcd
            den = den * d // gcd(den, d)
    if den == 1:
        return [(m, c.numerator) for m, c in p.items()], 1
    return [(m, c.numerator * (den // c.denominator)) for m, c in p.items()], den


class WorkLimit(Exception):
    """the term-product budget of a bounded evaluation is used up (deterministic: counted in monomial products, not in time)"""


_WORK = [0, None]          # [term products so far, limit or None]


class work_limit:
    """with work_limit(n): ...  -- polynomial multiplications inside the block may form at most n monomial products in total;
    beyond that WorkLimit is raised.  Used where an evaluation is an optional refinement whose cost is not known in advance."""

    def __init__(self, n):
        self.n = n

    def __enter__(self):
        self.saved = list(_WORK)
        _WORK[0], _WORK[1] = 0, self.n
        return self

    def __exit__(self, *exc):
        _WORK[0], _WORK[1] = self.saved
        return False


def p_mul(p, q):
    if not p or not q:
        return {}
    if _WORK[1] is not None:
        _WORK[0] += len(p) * len(q)
        if _WORK[0] > _WORK[1]:
            raise WorkLimit()
    if len(p) == 1:
        (m1, c1), = p.items()
        if m1 == ONE and c1 == 1:
            return dict(q)
        return {m1 + m2: c1 * c2 for m2, c2 in q.items()}
    if len(q) == 1:
        (m2, c2), = q.items()
        if m2 == ONE and c2 == 1:
            return dict(p)
        return {m1 + m2: c1 * c2 for m1, c1 in p.items()}
    ip, dp = _to_int_poly(p)
    iq, dq = _to_int_poly(q)
    r = {}
    get = r.get
    for m1, c1 in ip:
        for m2, c2 in iq:
            m = m1 + m2
            r[m] = get(m, 0) + c1 * c2
    d = dp * dq
    if d == 1:
        return {m: Fraction(v) for m, v in r.items() if v}
    return {m: Fraction(v, d) for m, v in r.items() if v}


def p_scale(p, c):
    c = Fraction(c)
    return {m: v * c for m, v in p.items()} if c else {}


def p_pow(p, n):
    r = p_const(1)
    for _ in range(n):
        r = p_mul(r, p)
    return r


def p_is_const(p):
    return all(m == ONE for m in p)


def p_const_value(p):
    return p.get(ONE, Fraction(0))


def p_atoms(p):
    s = set()
    for m in p:
        i = 0
        while m:
            if m & MASK:
                s.add(ATOMS[i])
            m >>= BITS
            i += 1
    return s


def _relation(atom):
    """atom**2 as a Rat (num, den) of polynomials"""
    if atom.startswith("sin("):
        c = "cos(" + atom[4:]
        return (p_add(p_const(1), p_pow(p_atom(c), 2), -1), p_const(1))
    r = RADICAND[atom]
    return (r.num, r.den)


def _find_target(p):
    """index of a relation atom occurring with exponent >= 2, or None"""
    if not _REDUCIBLE:
        return None
    shifts = [(i, BITS * i) for i in _REDUCIBLE]
    for m in p:
        if m:
            for i, sh in shifts:
                if (m >> sh) & MASK >= 2:
                    return i
    return None


def p_reduce(p):
    """polynomial -> (num, den) with every relation atom at exponent <= 1"""
    num, den = p, p_const(1)
    for _ in range(200):
        ti = _find_target(num)
        if ti is None:
            return num, den
        target = ATOMS[ti]
        sh = BITS * ti
        rn, rd = _relation(target)
        maxj = 0
        parts = []
        for m, c in num.items():
            e = (m >> sh) & MASK
            rest = m - (e << sh)
            parts.append((rest, e, c))
            if e // 2 > maxj:
                maxj = e // 2
        rn_pows = [p_const(1)]
        rd_pows = [p_const(1)]
        for j in range(maxj):
            rn_pows.append(p_mul(rn_pows[-1], rn))
            rd_pows.append(p_mul(rd_pows[-1], rd))
        # group the parts by (j, parity) so that each power is multiplied once
        groups = {}
        for rest, e, c in parts:
            key = (e // 2, e % 2)
            g = groups.setdefault(key, {})
            mm = rest + ((1 << sh) if e % 2 else 0)
            g[mm] = g.get(mm, 0) + c
        new = {}
        rd_const = p_is_const(rd)
        for (j, par), g in groups.items():
            term = g
            if j:
                term = p_mul(term, rn_pows[j])
            if maxj - j and not (rd_const and p_const_value(rd) == 1):
                term = p_mul(term, rd_pows[maxj - j])
            new = p_add(new, term)
        num = new
        if not (rd_const and p_const_value(rd) == 1):
            den = p_mul(den, rd_pows[maxj])
    raise RuntimeError("reduction did not terminate")


def _cancel_monomial_content(num, den):
    """divide numerator and denominator by their common monomial factor"""
    common = None
    for p in (num, den):
        for m in p:
            if common is None:
                common = {}
                mm, i = m, 0
                while mm:
                    e = mm & MASK
                    if e:
                        common[i] = e
                    mm >>= BITS
                    i += 1
            else:
                for i in list(common):
                    e = (m >> (BITS * i)) & MASK
                    if e < common[i]:
                        if e:
                            common[i] = e
                        else:
                            del common[i]
            if not common:
                return num, den
    if not common:
        return num, den
    g = 0
    for i, e in common.items():
        g += e << (BITS * i)
    return {m - g: c for m, c in num.items()}, {m - g: c for m, c in den.items()}


def _needs_reduce(p):
    return _find_target(p) is not None


def _proportional(num, den):
    """num == k * den for a rational k -> k, else None"""
    if len(num) != len(den):
        return None
    k = None
    for m, c in num.items():
        d = den.get(m)
        if d is None:
            return None
        if k is None:
            k = c / d
        elif c != k * d:
            return None
    return k


class Rat:
    """rational function num/den (polynomials, reduced w.r.t. the relations)"""
    __slots__ = ("num", "den")

    def __init__(self, num, den=None, _reduced=False):
        if den is None:
            den = p_const(1)
        if not den:
            raise ZeroDivisionError("zero denominator in normal form")
        if not _reduced:
            for _ in range(16):
                if not (_needs_reduce(num) or _needs_reduce(den)):
                    break
                n1, d1 = p_reduce(num)
                n2, d2 = p_reduce(den)
                # (n1/d1)/(n2/d2)
                num, den = p_mul(n1, d2), p_mul(d1, n2)
            else:
                raise RuntimeError("rational reduction did not terminate")
            if not den:
                raise ZeroDivisionError("zero denominator in normal form")
        if not num:
            den = p_const(1)
        elif not p_is_const(den):
            k = _proportional(num, den)
            if k is not None:
                num, den = p_const(k), p_const(1)
            else:
                num, den = _cancel_monomial_content(num, den)
        if p_is_const(den):
            c = p_const_value(den)
            if c != 1:
                num = p_scale(num, 1 / c)
                den = p_const(1)
        self.num, self.den = num, den

    # construction
    @staticmethod
    def const(c):
        return Rat(p_const(c), None, True)

    @staticmethod
    def atom(a):
        return Rat(p_atom(a), None, True)

    # arithmetic
    def __add__(self, o):
        o = as_rat(o)
        if self.den == o.den:
            return Rat(p_add(self.num, o.num), self.den)
        return Rat(p_add(p_mul(self.num, o.den), p_mul(o.num, self.den)), p_mul(self.den, o.den))

    __radd__ = __add__

    def __neg__(self):
        return Rat(p_scale(self.num, -1), self.den, True)

    def __sub__(self, o):
        return self + (-as_rat(o))

    def __rsub__(self, o):
        return as_rat(o) + (-self)

    def __mul__(self, o):
        o = as_rat(o)
        return Rat(p_mul(self.num, o.num), p_mul(self.den, o.den))

    __rmul__ = __mul__

    def __truediv__(self, o):
        o = as_rat(o)
        if not o.num:
            raise ZeroDivisionError("division by the zero normal form")
        return Rat(p_mul(self.num, o.den), p_mul(self.den, o.num))

    def __rtruediv__(self, o):
        return as_rat(o) / self

    def __pow__(self, n):
        if isinstance(n, Rat):
            if not n.is_const():
                raise ValueError("symbolic exponent")
            n = n.const_value()
        n = Fraction(n)
        if n.denominator != 1:
            raise ValueError("non-integer exponent %s" % n)
        n = int(n)
        if n < 0:
            return Rat.const(1) / (self ** (-n))
        return Rat(p_pow(self.num, n), p_pow(self.den, n))

    # queries
    def is_zero(self):
        return not self.num

    def is_const(self):
        return p_is_const(self.num) and p_is_const(self.den)

    def const_value(self):
        return p_const_value(self.num) / p_const_value(self.den)

    def same(self, o):
        """identical normal forms"""
        return (self - as_rat(o)).is_zero()

    def equals(self, o):
        """equal values: identical normal forms, or identical after the double-angle relations between the sines and cosines
        that occur (sin 2x = 2 sin x cos x, cos 2x = 1 - 2 sin^2 x whenever x and 2x both occur as arguments)"""
        d = self - as_rat(o)
        if d.is_zero():
            return True
        if len(d.num) > 600 or _WORK[1] is not None and _WORK[0] > _WORK[1]:
            return False
        # the two fall-backs are refinements of bounded cost: beyond the bound the forms count as different, as before
        try:
            with work_limit(400000 if _WORK[1] is None else max(0, min(400000, _WORK[1] - _WORK[0]))):
                if _double_angle_zero(d, 3):
                    return True
                return _radical_zero(d, 2)
        except WorkLimit:
            return False

    def atoms(self):
        return p_atoms(self.num) | p_atoms(self.den)

    def subs(self, mapping):
        """substitute atoms by Rats (mapping: atom -> Rat)"""
        def sp(p):
            tot = Rat.const(0)
            for m, c in p.items():
                t = Rat.const(c)
                for a, e in mono_items(m):
                    v = mapping.get(a)
                    if v is None:
                        v = Rat.atom(a)
                    t = t * (v ** e)
                tot = tot + t
            return tot
        return sp(self.num) / sp(self.den)

    def key(self):
        """canonical string (canonical when den is constant; otherwise the
        denominator is made monic in its first monomial)"""
        num, den = self.num, self.den
        if not p_is_const(den):
            lead = den[_sorted_monos(den)[0]]
            if lead != 1:
                num = p_scale(num, 1 / lead)
                den = p_scale(den, 1 / lead)
            return "(%s)/(%s)" % (p_str(num), p_str(den))
        return p_str(num)

    def __repr__(self):
        return self.key()


def _sorted_monos(p):
    return sorted(p, key=lambda m: mono_items(m))


def p_str(p):
    if not p:
        return "0"
    parts = []
    for m in _sorted_monos(p):
        c = p[m]
        mon = "*".join(a if e == 1 else "%s^%d" % (a, e) for a, e in mono_items(m))
        if not mon:
            parts.append(str(c))
        elif c == 1:
            parts.append(mon)
        elif c == -1:
            parts.append("-" + mon)
        else:
            parts.append("%s*%s" % (c, mon))
    s = " + ".join(parts).replace("+ -", "- ")
    return s


def as_rat(x):
    if isinstance(x, Rat):
        return x
    if isinstance(x, bool):
        raise TypeError("bool is not a number here")
    if isinstance(x, int):
        return Rat.const(x)
    if isinstance(x, Fraction):
        return Rat.const(x)
    if isinstance(x, float):
        return Rat.const(Fraction(repr(x)))
    raise TypeError("not a scalar normal form: %r" % (x,))


ATOM_ARGS: dict = {}     # function atom -> (name, [Rat args])


def _frac_gcd(a: Fraction, b: Fraction) -> Fraction:
    from math import gcd
    if a == 0:
        return abs(b)
    if b == 0:
        return abs(a)
    return Fraction(gcd(a.numerator * b.denominator, b.numerator * a.denominator),
                    a.denominator * b.denominator)


POSITIVE_SCALE_ATOMS = ["pi"]      # atoms known positive whose even powers may leave a square root


def p_content(p, scale_atoms=None):
    """(positive rational content, {scale atom: min exponent}) of a polynomial"""
    scale_atoms = POSITIVE_SCALE_ATOMS if scale_atoms is None else scale_atoms
    c = Fraction(0)
    ids = [(a, BITS * atom_id(a)) for a in scale_atoms]
    exps = None
    for m, v in p.items():
        c = _frac_gcd(c, v)
        d = {}
        for a, sh in ids:
            e = (m >> sh) & MASK
            if e:
                d[a] = e
        if exps is None:
            exps = d
        else:
            exps = {a: min(e, d[a]) for a, e in exps.items() if a in d}
    return (c if c else Fraction(1)), (exps or {})


def split_content(r: "Rat"):
    """r = content * primitive, content = q * prod(positive scale atoms ^ k) with q > 0 rational.
    returns (content Rat, q, {atom: k}, primitive)"""
    cn, en = p_content(r.num)
    cd, ed = p_content(r.den)
    q = cn / cd
    ks = {}
    for a in set(en) | set(ed):
        k = en.get(a, 0) - ed.get(a, 0)
        if k:
            ks[a] = k
    content = Rat.const(q)
    for a, k in ks.items():
        content = content * (Rat.atom(a) ** k)
    return content, q, ks, r / content


def sqrt_of(r: Rat) -> Rat:
    """square root as an atom with relation atom^2 = r.  Positive content that
    is a perfect square (rational squares, even powers of the positive scale
    atoms) is pulled out; a radicand equal (as a normal form) to an earlier one
    reuses that atom."""
    from math import isqrt
    r = as_rat(r)
    if r.is_zero():
        return Rat.const(0)
    if len(r.den) > 1 and len(r.num) > 1:
        # a common polynomial factor of numerator and denominator (x*(a+b)/(a+b)): one radicand per value
        qd = p_exact_div(r.num, r.den)
        if qd is not None:
            r = Rat(qd)
    for a_ in POSITIVE_SCALE_ATOMS:
        # the square of a quantity known to be positive (sin^2 is kept as 1 - cos^2 by the normal form)
        if a_ != "pi" and r.equals(Rat.atom(a_) * Rat.atom(a_)):
            return Rat.atom(a_)
    content, q, ks, prim = split_content(r)
    n, d = q.numerator, q.denominator
    outside = Rat.const(1)
    if all(k % 2 == 0 for k in ks.values()):
        # sqrt(n/d) = s*sqrt(m)/d with n*d = s^2*m, m square-free: one canonical radicand per number
        m, sq = n * d, 1
        if m < 10 ** 12:
            f = 2
            while f * f <= m:
                while m % (f * f) == 0:
                    m //= f * f
                    sq *= f
                f += 1
            outside = Rat.const(Fraction(sq, d))
            for a, k in ks.items():
                outside = outside * (Rat.atom(a) ** (k // 2))
            r = prim * m
        elif isqrt(n) ** 2 == n and isqrt(d) ** 2 == d:
            outside = Rat.const(Fraction(isqrt(n), isqrt(d)))
            for a, k in ks.items():
                outside = outside * (Rat.atom(a) ** (k // 2))
            r = prim
    if r.is_const():
        v = r.const_value()
        if v == 1:
            return outside
        if v > 0:
            n, d = v.numerator, v.denominator
            if isqrt(n) ** 2 == n and isqrt(d) ** 2 == d:
                return outside * Rat.const(Fraction(isqrt(n), isqrt(d)))
    for a, rad in RADICAND.items():
        if a.startswith("sqrt(") and rad.equals(r):
            return outside * Rat.atom(a)
    a = "sqrt(%s)" % r.key()
    set_relation(a, r)
    return outside * Rat.atom(a)


def p_exact_div(p, q):
    """p / q for polynomials when the division is exact, else None (multivariate division by the leading monomial in the order
    of the packed monomials, which is a lexicographic order on the exponent vectors)"""
    if not q:
        return None
    lq = max(q)
    cq = q[lq]
    lq_items = dict(mono_items(lq))
    rem = dict(p)
    quo = {}
    steps = 0
    while rem:
        steps += 1
        if steps > 4000:
            return None
        lp = max(rem)
        items = dict(mono_items(lp))
        if any(items.get(a, 0) < e for a, e in lq_items.items()):
            return None
        m = lp - lq
        c = rem[lp] / cq
        quo[m] = quo.get(m, 0) + c
        for mq, cqq in q.items():
            mm = m + mq
            v = rem.get(mm, 0) - c * cqq
            if v:
                rem[mm] = v
            else:
                rem.pop(mm, None)
    return {m: c for m, c in quo.items() if c}


def _radical_zero(d, depth):
    """d == 0 after expressing a square root whose radicand is the quotient or the product of the radicands of two other square
    roots occurring in d through those (principal roots: sqrt(a/b) = sqrt(a)/sqrt(b), sqrt(a*b) = sqrt(a)*sqrt(b) for a, b >= 0)"""
    rads = [a for a in d.atoms() if a.startswith("sqrt(") and a in RADICAND]
    if len(rads) < 2:
        return False
    for t in rads:
        rt = RADICAND[t]
        others = [a for a in rads if a != t]
        for a in others:
            ra = RADICAND[a]
            cands = [(None, ra)]                     # t = a * (a perfect square is not looked for)
            for b in others:
                if b == a:
                    continue
                rb = RADICAND[b]
                for form, val in (("quot", ra / rb), ("prod", ra * rb)):
                    if (rt - val).is_zero():
                        A, B = Rat.atom(a), Rat.atom(b)
                        d2 = d.subs({t: A / B if form == "quot" else A * B})
                        if d2.is_zero():
                            return True
                        if depth > 1 and (_radical_zero(d2, depth - 1) or _double_angle_zero(d2, 2)):
                            return True
            # t = a / (polynomial square) or a * (...): the quotient rt/ra a perfect square of a rational function is rare; skipped
    return False


def _double_angle_zero(d, depth):
    """d == 0 after rewriting sin(A), cos(A) through the half angle for every A such that A/2 is an argument too"""
    trig = [(a, ATOM_ARGS[a]) for a in d.atoms() if a in ATOM_ARGS and ATOM_ARGS[a][0] in ("sin", "cos") and len(ATOM_ARGS[a][1]) == 1]
    if len(trig) < 2:
        return False
    args = []
    for _a, (_nm, ar) in trig:
        if not any(ar[0].same(x) for x in args):
            args.append(ar[0])
    mapping = {}
    for a, (nm, ar) in trig:
        A = ar[0]
        for B in args:
            if B is A or not (A - 2 * B).is_zero():
                continue
            sB, cB = func_atom("sin", B), func_atom("cos", B)
            mapping[a] = 2 * sB * cB if nm == "sin" else 1 - 2 * sB * sB
            break
    if not mapping:
        return False
    d2 = d.subs(mapping)
    if d2.is_zero():
        return True
    return depth > 1 and _double_angle_zero(d2, depth - 1)


def func_atom(name: str, *args) -> Rat:
    args = [as_rat(a) for a in args]
    if name == "abs" and len(args) == 1 and args[0].num:
        # |x| = |-x|: one atom for both (the argument is stored with a positive leading coefficient)
        if args[0].num[_sorted_monos(args[0].num)[0]] < 0:
            args[0] = -args[0]
    for a, (nm, ar) in ATOM_ARGS.items():
        if nm == name and len(ar) == len(args) and all(x.same(y) for x, y in zip(ar, args)):
            return Rat.atom(a)
    a = "%s(%s)" % (name, ",".join(x.key() for x in args))
    ATOM_ARGS[a] = (name, args)
    return Rat.atom(a)


def atom_info(r: Rat):
    """if r is exactly one function atom -> (name, args) else None"""
    a = single_atom(r)
    return ATOM_ARGS.get(a) if a is not None else None


def single_atom(r: Rat):
    """if r is exactly one atom (coefficient 1, exponent 1) -> its name else None"""
    if len(r.num) == 1 and p_is_const(r.den) and p_const_value(r.den) == 1:
        (m, c), = r.num.items()
        if c == 1:
            it = mono_items(m)
            if len(it) == 1 and it[0][1] == 1:
                return it[0][0]
    return None
