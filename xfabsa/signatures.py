"""
Signature table of the 41 sibling functions of xfab.tools / xfab.laue:
shape and tau-weight of every parameter and of the return value.

tau-weight w: the value is homogeneous of degree w in the reciprocal-space
scale tau (tau = 2*pi in xfab.tools, 1 in xfab.laue).  From the docstrings and
C14's statement: B matrices and g-vectors have weight 1; cells, U, UBI, angles,
strains, sin(theta)/lambda, two-theta, hkl have weight 0.

shape None = scalar; "list6" values are sequences of six scalars.
"""

S = None
SIG = {
    # name: ([(param, shape, weight), ...], return structure)
    # return structure: (shape, weight) or a tuple of such
    "cell_invert": ([("unit_cell", (6,), 0)], ((6,), 0)),
    "cell_volume": ([("unit_cell", (6,), 0)], (S, 0)),
    "form_b_mat": ([("unit_cell", (6,), 0)], ((3, 3), 1)),
    "form_a_mat": ([("unit_cell", (6,), 0)], ((3, 3), 0)),
    "form_a_mat_inv": ([("unit_cell", (6,), 0)], ((3, 3), 0)),
    "ubi_to_cell": ([("ubi_matrix", (3, 3), 0)], ((6,), 0)),
    "ubi_to_u": ([("ubi_matrix", (3, 3), 0)], ((3, 3), 0)),
    "ubi_to_u_and_eps": ([("ubi_matrix", (3, 3), 0), ("unit_cell", (6,), 0)], (((3, 3), 0), ((6,), 0))),
    "a_to_cell": ([("A_matrix", (3, 3), 0)], ((6,), 0)),
    "b_to_cell": ([("B_matrix", (3, 3), 1)], ((6,), 0)),
    "epsilon_to_b_old": ([("epsilon", (6,), 0), ("unit_cell", (6,), 0)], ((3, 3), 1)),
    "b_to_epsilon_old": ([("B_matrix", (3, 3), 1), ("unit_cell", (6,), 0)], ((6,), 0)),
    "b_to_epsilon": ([("B_matrix", (3, 3), 1), ("unit_cell", (6,), 0)], ((6,), 0)),
    "epsilon_to_b": ([("epsilon", (6,), 0), ("unit_cell", (6,), 0)], ((3, 3), 1)),
    "euler_to_u": ([("phi1", S, 0), ("PHI", S, 0), ("phi2", S, 0)], ((3, 3), 0)),
    "u_to_euler": ([("U_matrix", (3, 3), 0)], ((3,), 0)),
    "u_to_rod": ([("U_matrix", (3, 3), 0)], ((3,), 0)),
    "u_to_ubi": ([("U_matrix", (3, 3), 0), ("unit_cell", (6,), 0)], ((3, 3), 0)),
    "ubi_to_rod": ([("ubi_matrix", (3, 3), 0)], ((3,), 0)),
    "ubi_to_u_b": ([("ubi_matrix", (3, 3), 0)], (((3, 3), 0), ((3, 3), 1))),
    "rod_to_u": ([("rodriguez_vector", (3,), 0)], ((3, 3), 0)),
    "ub_to_u_b": ([("UB_matrix", (3, 3), 1)], (((3, 3), 0), ((3, 3), 1))),
    "reduce_cell": ([("unit_cell", (6,), 0), ("uvw", S, 0)], ((6,), 0)),
    "detect_tilt": ([("tilt_x", S, 0), ("tilt_y", S, 0), ("tilt_z", S, 0)], ((3, 3), 0)),
    "quart_to_omega": ([("w", S, 0), ("w_x", S, 0), ("w_y", S, 0)], ((3, 3), 0)),
    "form_omega_mat": ([("omega", S, 0)], ((3, 3), 0)),
    "form_omega_mat_general": ([("omega", S, 0), ("chi", S, 0), ("wedge", S, 0)], ((3, 3), 0)),
    "sintl": ([("unit_cell", (6,), 0), ("hkl", (3,), 0)], (S, 0)),
    "tth": ([("unit_cell", (6,), 0), ("hkl", (3,), 0), ("wavelength", S, 0)], (S, 0)),
    "tth2": ([("gve", (3,), 1), ("wavelength", S, 0)], (S, 0)),
    # the omega solvers of xfab.tools demand |g| = sin(theta): weight 0 (documented quirk)
    "find_omega_general": ([("g_w", (3,), 0), ("twoth", S, 0), ("w_x", S, 0), ("w_y", S, 0)], None),
    "find_omega_quart": ([("g_w", (3,), 0), ("twoth", S, 0), ("w_x", S, 0), ("w_y", S, 0)], None),
    "find_omega_wedge": ([("g_w", (3,), 0), ("twoth", S, 0), ("wedge", S, 0)], None),
    "find_omega": ([("g_w", (3,), 0), ("twoth", S, 0)], None),
    "_arctan2": ([("y", S, 0), ("x", S, 0)], (S, 0)),
    "genhkl_all": (None, None), "genhkl_unique": (None, None), "genhkl_base": (None, None),
    "genhkl": (None, None), "sysabs": (None, None), "sysabs_unique": (None, None),
}

EXPECTED_FUNCTIONS = sorted(SIG)
assert len(EXPECTED_FUNCTIONS) == 41
