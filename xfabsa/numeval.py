"""
Numeric evaluation of normal forms, used for ONE purpose: to keep "the normal forms differ" from being reported as "the
values differ" when the difference may be a weakness of the normaliser (nested radicals, relations between reciprocal-cell
quantities it does not know).

    decide_equal(x, y, domain)  ->  True            the normal forms are identical
                                    (False, witness) they differ, and they differ numerically at a sample point
                                    raises Undecided they differ as normal forms but agree numerically at every sample point

Nothing of xfab is executed: the expression trees are the analyser's own (atoms are structured: function atoms keep their
arguments in poly.ATOM_ARGS, radicals their radicand in poly.RADICAND).  Sample points are fixed rationals drawn from a
deterministic sequence inside the stated domain.
"""
import math
from fractions import Fraction

from . import poly
from .poly import Rat, mono_items
from .symeval import Undecided


class NoValue(Exception):
    pass


def atom_value(a, point, cache):
    if a in cache:
        return cache[a]
    if a in point:
        v = float(point[a])
    elif a == "pi":
        v = math.pi
    elif a in poly.RADICAND:
        r = value(poly.RADICAND[a], point, cache)
        if r < 0:
            raise NoValue("negative radicand of %s" % a)
        v = math.sqrt(r)
    elif a in poly.ATOM_ARGS:
        name, args = poly.ATOM_ARGS[a]
        xs = [value(x, point, cache) for x in args]
        try:
            if name in ("cos", "sin", "tan", "exp", "arctan", "sqrt", "log", "fabs", "floor", "ceil"):
                v = getattr(math, {"arctan": "atan"}.get(name, name))(xs[0])
            elif name in ("arccos", "arcsin"):
                v = getattr(math, "a" + name[3:])(max(-1.0, min(1.0, xs[0])))
            elif name == "arctan2":
                v = math.atan2(xs[0], xs[1])
            elif name == "abs":
                v = abs(xs[0])
            elif name in ("max", "min"):
                v = (max if name == "max" else min)(xs)
            elif name == "round":
                v = float(round(xs[0]))
            elif name == "fix":
                v = float(math.trunc(xs[0]))
            elif name == "mod":
                v = math.fmod(xs[0], xs[1]) if xs[1] else float("nan")
                if v and (v < 0) != (xs[1] < 0):
                    v += xs[1]
            elif name == "sign":
                v = float((xs[0] > 0) - (xs[0] < 0))
            else:
                raise NoValue("function %s" % name)
        except (ValueError, OverflowError) as e:
            raise NoValue("%s: %s" % (a[:40], e))
    else:
        raise NoValue("free atom %s" % a[:60])
    cache[a] = v
    return v


def _poly(p, point, cache):
    tot = 0.0
    for m, c in p.items():
        t = float(c)
        for a, e in mono_items(m):
            t *= atom_value(a, point, cache) ** e
        tot += t
    return tot


def value(r, point, cache=None):
    cache = {} if cache is None else cache
    d = _poly(r.den, point, cache)
    if d == 0:
        raise NoValue("zero denominator")
    return _poly(r.num, point, cache) / d


def sample_points(domain, n=6):
    """domain: {atom: (lo, hi)} -> n deterministic points with rational coordinates strictly inside the boxes"""
    pts = []
    names = sorted(domain)
    for k in range(n):
        pt = {}
        for i, a in enumerate(names):
            lo, hi = domain[a]
            # fractional parts of multiples of square roots of primes: equidistributed, fixed
            f = math.modf(math.sqrt((2, 3, 5, 7, 11, 13, 17, 19, 23, 29, 31, 37)[i % 12]) * (k + 1) * (1 + i // 12))[0]
            f = 0.1 + 0.8 * f
            pt[a] = Fraction(lo) + (Fraction(hi) - Fraction(lo)) * Fraction(int(f * 10 ** 6), 10 ** 6)
        pts.append(pt)
    return pts


def decide_equal(x, y, domain, n=6, rtol=1e-8):
    x, y = poly.as_rat(x), poly.as_rat(y)
    if x.equals(y):
        return True
    worst = None
    seen = 0
    for pt in sample_points(domain, n):
        try:
            vx, vy = value(x, pt), value(y, pt)
        except NoValue:
            continue
        seen += 1
        scale = max(abs(vx), abs(vy), 1.0)
        if abs(vx - vy) > rtol * scale:
            return (False, {"at": {a: str(v) for a, v in pt.items()}, "left": vx, "right": vy})
        worst = max(worst or 0.0, abs(vx - vy) / scale)
    if not seen:
        raise Undecided("normal forms differ and cannot be evaluated numerically: %s ; %s" % (x.key()[:80], y.key()[:80]))
    raise Undecided("normal forms differ (%s ; %s) but agree numerically at %d sample points (max relative difference %.1e): "
                    "the identity is beyond the normaliser" % (x.key()[:80], y.key()[:80], seen, worst))


def default_domain(*rs):
    """a box for every unstructured atom of the normal forms: cell-like arrays get edges / angles in degrees, everything else (0.2, 0.9)"""
    import re
    dom = {}

    def visit(r):
        for a in poly.as_rat(r).atoms():
            if a in dom or a == "pi":
                continue
            if a in poly.RADICAND:
                visit(poly.RADICAND[a])
            elif a in poly.ATOM_ARGS:
                for x in poly.ATOM_ARGS[a][1]:
                    visit(x)
            else:
                m = re.match(r"^(\w*cell\w*)\[(\d)\]$", a)
                if m:
                    dom[a] = (3, 12) if int(m.group(2)) < 3 else (70, 110)
                else:
                    dom[a] = (Fraction(1, 5), Fraction(9, 10))
    for r in rs:
        visit(r)
    return dom
