"""
E0 -- literal-table extraction by constant propagation.

* sglib.py: every class ``Sg<n>`` whose ``__init__`` only assigns literals to
  attributes of ``self``, optionally under ``if self.cell_choice ==
  "rhombohedral": ... else: ...``.  Both arms are taken.
* sg.py: the ``sgdic`` dictionary literal and the look-up model of ``sg.__init__``.
* atomlib.py: the ``formfactor`` dictionary literal.
* tools/laue ``genhkl_base``: the ``segm`` cone tables under their guards.
* symmetry.permutations: ``perm[k] = <literal>`` stores under ``if crystal_system == k``.

Anything else inside these anchors is an AnalysisError.
"""
from __future__ import annotations

import ast
from fractions import Fraction

from .core import AnalysisError, module, loc, unparse, body_wo_doc

SG_ATTRS = ("no", "name", "crystal_system", "Laue", "nsymop", "nuniq",
            "cell_choice", "syscond", "rot", "trans")


def literal(node):
    try:
        return ast.literal_eval(node)
    except Exception:
        raise AnalysisError("not a literal: %s (line %s)" % (unparse(node)[:60], getattr(node, "lineno", "?")))


class Setting:
    """One tabulated space-group setting."""
    __slots__ = ("klass", "arm", "attrs", "lines", "param_default")

    def __init__(self, klass, arm):
        self.klass = klass
        self.arm = arm          # 'standard' (only arm or else-arm) | 'rhombohedral'
        self.attrs = {}
        self.lines = {}

    def __getattr__(self, k):
        try:
            return self.attrs[k]
        except KeyError:
            raise AttributeError(k)

    @property
    def key(self):
        return "%s:%s" % (self.klass, self.arm)


def _self_attr_store(stmt):
    """`self.X = <expr>` -> (X, expr) else None"""
    if isinstance(stmt, ast.Assign) and len(stmt.targets) == 1:
        t = stmt.targets[0]
        if isinstance(t, ast.Attribute) and isinstance(t.value, ast.Name) and t.value.id == "self":
            return t.attr, stmt.value
    return None


def _to_py(v):
    """E7 value -> python literal (numbers as int when integral, else float)"""
    from .poly import Rat
    if isinstance(v, Rat):
        if not v.is_const():
            raise AnalysisError("sglib attribute is not a constant: %s" % v.key()[:40])
        c = v.const_value()
        return int(c) if c.denominator == 1 else float(c)
    if isinstance(v, (list, tuple)):
        return [_to_py(x) for x in v]
    if hasattr(v, "data") and hasattr(v, "shape"):
        return _to_py(v.data)
    if isinstance(v, (str, bool)) or v is None:
        return v
    raise AnalysisError("sglib attribute of unsupported kind %r" % (v,))


def _evaluate_sglib_class(m, cname, cdef):
    """fallback for a class whose __init__ is not a list of literal stores: evaluate it (E7) for cell_choice 'standard' and
    'rhombohedral' -> ({arm: attrs}, default)"""
    from .objeval import ObjEvaluator, PyRaise
    from .symeval import RaiseReached
    node = ast.Constant(value=0)
    node.lineno = cdef.lineno
    out = {}
    ev = ObjEvaluator(m, max_depth=8)
    for arm in ("standard", "rhombohedral"):
        try:
            o = ev.instantiate(cname, [], {"cell_choice": arm}, node)
        except (PyRaise, RaiseReached) as e:
            raise AnalysisError("sglib %s(cell_choice=%r) raises" % (cname, arm))
        out[arm] = {k: _to_py(v) for k, v in o.attrs.items()}
    try:
        o = ev.instantiate(cname, [], {}, node)
        default = _to_py(o.attrs.get("cell_choice"))
    except (PyRaise, RaiseReached):
        default = "standard"
    return out, default


def extract_sglib(rel="xfab/sglib.py"):
    """Returns (settings: list[Setting], class_info: dict name -> dict)."""
    m = module(rel)
    settings = []
    info = {}
    for cname, cdef in m.classes.items():
        if not cname.startswith("Sg"):
            continue
        try:
            _extract_sglib_class(m, cname, cdef, settings, info)
        except AnalysisError as first:
            # not a plain list of literal stores: evaluate the constructor instead
            try:
                arms, default = _evaluate_sglib_class(m, cname, cdef)
            except AnalysisError as second:
                raise AnalysisError("%s ; evaluation: %s" % (first, second))
            del settings[len([s_ for s_ in settings if s_.klass != cname]):]
            two = arms["standard"] != arms["rhombohedral"]
            info[cname] = {"line": cdef.lineno, "has_r_arm": two, "default": default}
            for arm in (("standard", "rhombohedral") if two else ("standard",)):
                s = Setting(cname, arm)
                s.attrs = dict(arms[arm])
                s.lines = {a: cdef.lineno for a in s.attrs}
                missing = [a for a in SG_ATTRS if a not in s.attrs]
                if missing:
                    raise AnalysisError("sglib %s (%s): attributes never assigned: %s" % (cname, arm, missing))
                settings.append(s)
    return settings, info


def _extract_sglib_class(m, cname, cdef, settings, info):
    if True:
        inits = [n for n in cdef.body if isinstance(n, ast.FunctionDef) and n.name == "__init__"]
        others = [n for n in cdef.body if not (isinstance(n, ast.FunctionDef) and n.name == "__init__")
                  and not (isinstance(n, ast.Expr) and isinstance(n.value, ast.Constant))]
        if len(inits) != 1 or others:
            raise AnalysisError("sglib class %s: unexpected members (line %d)" % (cname, cdef.lineno))
        init = inits[0]
        args = init.args
        names = [a.arg for a in args.args]
        if names != ["self", "cell_choice"] or len(args.defaults) != 1:
            raise AnalysisError("sglib %s.__init__: unexpected signature" % cname)
        default = literal(args.defaults[0])
        common = {}
        common_lines = {}
        arms = None
        symbolic_cell_choice = False
        for stmt in body_wo_doc(init):
            st = _self_attr_store(stmt)
            if st is not None:
                attr, val = st
                if attr == "cell_choice" and isinstance(val, ast.Name) and val.id == "cell_choice":
                    symbolic_cell_choice = True
                    continue
                if arms is not None:
                    raise AnalysisError("sglib %s: store after the setting branch (line %d)" % (cname, stmt.lineno))
                common[attr] = literal(val)
                common_lines[attr] = stmt.lineno
                continue
            if isinstance(stmt, ast.If):
                if arms is not None:
                    raise AnalysisError("sglib %s: second branch" % cname)
                t = stmt.test
                okshape = (isinstance(t, ast.Compare) and len(t.ops) == 1 and isinstance(t.ops[0], ast.Eq)
                           and isinstance(t.left, ast.Attribute) and t.left.attr == "cell_choice"
                           and isinstance(t.left.value, ast.Name) and t.left.value.id == "self"
                           and isinstance(t.comparators[0], ast.Constant)
                           and t.comparators[0].value == "rhombohedral")
                if not okshape or not symbolic_cell_choice:
                    raise AnalysisError("sglib %s: unrecognised setting test `%s`" % (cname, unparse(t)))
                arms = {}
                for arm, body in (("rhombohedral", stmt.body), ("standard", stmt.orelse)):
                    d, ln = {}, {}
                    if not body:
                        raise AnalysisError("sglib %s: empty %s arm" % (cname, arm))
                    for s2 in body:
                        st2 = _self_attr_store(s2)
                        if st2 is None:
                            raise AnalysisError("sglib %s: unrecognised statement in arm (line %d)" % (cname, s2.lineno))
                        d[st2[0]] = literal(st2[1])
                        ln[st2[0]] = s2.lineno
                    arms[arm] = (d, ln)
                continue
            raise AnalysisError("sglib %s: unrecognised statement `%s` (line %d)"
                                % (cname, unparse(stmt)[:50], stmt.lineno))
        info[cname] = {"line": cdef.lineno, "has_r_arm": arms is not None, "default": default}
        if arms is None:
            s = Setting(cname, "standard")
            s.attrs = dict(common)
            s.lines = dict(common_lines)
            settings.append(s)
        else:
            for arm in ("standard", "rhombohedral"):
                s = Setting(cname, arm)
                s.attrs = dict(common)
                s.lines = dict(common_lines)
                if "cell_choice" not in s.attrs:
                    # self.cell_choice = cell_choice (the parameter); in the
                    # rhombohedral arm its value is the tested literal
                    s.attrs["cell_choice"] = "rhombohedral" if arm == "rhombohedral" else default
                s.attrs.update(arms[arm][0])
                s.lines.update(arms[arm][1])
                settings.append(s)
        for s in settings[-2:] if arms is not None else settings[-1:]:
            missing = [a for a in SG_ATTRS if a not in s.attrs]
            if missing:
                raise AnalysisError("sglib %s (%s): attributes never assigned: %s" % (cname, s.arm, missing))


def _home_of_table(m, name):
    """a table the module imports from another module of the package (`from xfab._sgnames import sgdic`) is read where it is
    written; -> the module that assigns it (m itself, usually)"""
    for _ in range(4):
        if name in m.assigns or name not in m.imports:
            return m
        dotted = m.imports[name]
        if not dotted.startswith("xfab.") or not dotted.endswith("." + name):
            return m
        try:
            m = module(dotted[:-len(name) - 1].replace(".", "/") + ".py")
        except AnalysisError:
            return m
    return m


def extract_sgdic(rel="xfab/sg.py"):
    m = _home_of_table(module(rel), "sgdic")
    if "sgdic" not in m.assigns:
        raise AnalysisError("anchor vanished: sgdic in %s" % rel)
    node = m.assigns["sgdic"].value
    if not isinstance(node, ast.Dict):
        return _evaluated_table(m, "sgdic", node.lineno, lambda v: v)
    out = []
    for k, v in zip(node.keys, node.values):
        out.append((literal(k), literal(v), k.lineno))
    return out


def _evaluated_table(m, name, lineno, conv):
    """a module-level table that is not a dictionary literal (built by a helper, a comprehension, from tuples): evaluated (E7)"""
    from .objeval import ObjEvaluator, PyRaise
    from .symeval import RaiseReached
    try:
        d = ObjEvaluator(m, max_depth=10).module_constant(name)
    except (PyRaise, RaiseReached):
        raise AnalysisError("%s in %s raises when evaluated" % (name, m.rel))
    if not isinstance(d, dict):
        raise AnalysisError("%s in %s does not evaluate to a dictionary" % (name, m.rel))
    return [(k, conv(_to_py(v)), lineno) for k, v in d.items()]


def extract_formfactor(rel="xfab/atomlib.py"):
    m = _home_of_table(module(rel), "formfactor")
    if "formfactor" not in m.assigns:
        raise AnalysisError("anchor vanished: formfactor in %s" % rel)
    node = m.assigns["formfactor"].value
    if not isinstance(node, ast.Dict):
        return _evaluated_table(m, "formfactor", node.lineno, lambda v: [float(x) for x in v] if isinstance(v, list) else v)
    out = []
    for k, v in zip(node.keys, node.values):
        out.append((literal(k), literal(v), k.lineno))
    return out


# --------------------------------------------------------------------------
# genhkl_base: cone tables
# --------------------------------------------------------------------------

def _is_np_array_call(node):
    return (isinstance(node, ast.Call) and isinstance(node.func, ast.Attribute)
            and node.func.attr == "array" and len(node.args) == 1)


def _guard_terms(test, params):
    """A guard `P == 'lit' [and Q ==|!= 'lit']` -> list of (param, op, lit)"""
    terms = []
    parts = test.values if isinstance(test, ast.BoolOp) and isinstance(test.op, ast.And) else [test]
    for p in parts:
        if not (isinstance(p, ast.Compare) and len(p.ops) == 1 and isinstance(p.left, ast.Name)
                and p.left.id in params and isinstance(p.comparators[0], ast.Constant)
                and isinstance(p.ops[0], (ast.Eq, ast.NotEq))):
            return None
        terms.append((p.left.id, "==" if isinstance(p.ops[0], ast.Eq) else "!=", p.comparators[0].value))
    return terms


class SegmModel:
    """The cone tables of genhkl_base, obtained by *evaluating* (E7) the statements of the function that precede its first
    loop for a concrete (Laue class, cell choice, crystal system): whichever way the tables are stored (one literal per
    guarded assignment, an if/elif chain, a helper function, a dictionary), the value that reaches the loop is the table."""

    def __init__(self, rel):
        self.rel = rel
        self.mod = module(rel)
        self.fn = self.mod.func("genhkl_base")
        self._cache = {}

    def _evaluate(self, Laue, cc, csys):
        # tests on the cell (they only select log messages) are answered both ways: the table must not depend on them
        results = [self._evaluate_once(Laue, cc, csys, sg) for sg in (1, 0, -1)]
        if any(r != results[0] for r in results[1:]):
            raise AnalysisError("%s genhkl_base: the cone table for Laue %r / %r depends on a comparison of cell parameters" % (self.rel, Laue, cc))
        return results[0]

    def _evaluate_once(self, Laue, cc, csys, sign):
        from .objeval import ObjEvaluator, PyRaise
        from .symeval import Arr, RaiseReached, sym_array, const_int, materialise, _Return
        from .poly import Rat
        class WalkStarted(AnalysisError):
            frames = ()

        class PrefixEval(ObjEvaluator):
            # the environments of the running frames, innermost last (the walk may start inside a helper or a generator of
            # another module: the table that is alive THERE is the table of the walk)
            def exec_block(self, stmts, env_):
                root = self.__dict__.get("_root") or self
                fr = root.__dict__.setdefault("_frames", [])
                fr.append(env_)
                try:
                    return ObjEvaluator.exec_block(self, stmts, env_)
                finally:
                    fr.pop()

        def walk_started(name, args, kwargs, node):
            # the prefix ends where the walk begins: its first use of the metric or of the reflection conditions
            if name in ("sintl", "sysabs", "sysabs_unique"):
                e_ = WalkStarted("genhkl_base: the walk starts (call of %s, line %d)" % (name, getattr(node, "lineno", 0)))
                e_.frames = list(ev.__dict__.get("_frames", []))
                raise e_
            return NotImplemented
        ev = PrefixEval(self.mod, inline=set(), max_depth=8, sign_policy=lambda d, node=None: sign, call_policy=walk_started)
        fn = self.fn
        run_ev = ev.home_evaluator(fn)        # (a genhkl_base imported back from a private module runs there)
        env = {}
        given = {"Laue_class": Laue, "cell_choice": cc, "crystal_system": csys if csys is not None else "triclinic",
                 "unit_cell": sym_array("unit_cell", (6,)), "sysconditions": sym_array("sysconditions", (26,)),
                 "sintlmin": Rat.atom("sintlmin"), "sintlmax": Rat.atom("sintlmax"), "output_stl": None}
        params = [a.arg for a in list(getattr(fn.args, "posonlyargs", [])) + list(fn.args.args)]
        nd = len(fn.args.defaults)
        for i, p in enumerate(params):
            if p in given:
                env[p] = given[p]
            else:
                j = i - (len(params) - nd)
                env[p] = run_ev.eval(fn.args.defaults[j], {}) if j >= 0 else Rat.atom(p)

        def is_table(v):
            A = v if isinstance(v, Arr) else (materialise(v) if isinstance(v, (list, tuple)) else None)
            if A is None:
                return None
            shp = A.shape
            if len(shp) != 3 or shp[1:] != (4, 3):
                return None
            rows = []
            for cone in A.data:
                r4 = []
                for vec in cone:
                    ints = [const_int(x) for x in vec]
                    if any(i is None for i in ints):
                        return None
                    r4.append(ints)
                rows.append(r4)
            return rows
        found = []
        body = body_wo_doc(fn)
        stopped_at, stop_error = None, None
        try:
            for si, st in enumerate(body):
                if isinstance(st, (ast.For, ast.While)):
                    # a loop that can be evaluated (a scan of a static table) belongs to the prefix; the walk cannot
                    trial = {k_: (v_.copy() if isinstance(v_, Arr) else v_) for k_, v_ in env.items()}
                    try:
                        run_ev.exec_stmt(st, trial)
                        env.clear()
                        env.update(trial)
                        continue
                    except (PyRaise, RaiseReached, _Return):
                        raise
                    except AnalysisError as e:
                        stop_error = e
                    if isinstance(st, ast.For):
                        try:
                            t = is_table(run_ev.eval(st.iter, env))
                            if t is not None:
                                found.append(t)
                        except AnalysisError:
                            pass
                    stopped_at = si
                    break
                try:
                    run_ev.exec_stmt(st, env)
                except (PyRaise, RaiseReached, _Return):
                    raise
                except AnalysisError as e:
                    # the walk may start in a plain statement (a generator expression, a helper that walks): what cannot be
                    # evaluated without a metric ends the prefix -- provided a cone table is alive by then
                    stopped_at, stop_error = si, e
                    break
        except (PyRaise, RaiseReached, _Return):
            return None            # the combination is rejected before the walk starts
        # tables bound to names the walk itself mentions (a scan of a table of tables leaves its loop variables behind)
        rest = body[stopped_at:] if stopped_at is not None else []
        used = {n_.id for r_ in rest for n_ in ast.walk(r_) if isinstance(n_, ast.Name)} if rest else set(env)

        def tables_in(v, depth=0):
            if isinstance(v, (str, bool, type(None))) or depth > 2:
                return
            try:
                t = is_table(v) if not isinstance(v, dict) else None
            except AnalysisError:
                t = None           # a record that mixes tables with text
            if t is not None:
                yield t
                return
            kids = []
            if hasattr(v, "fields") and hasattr(v, "values"):
                kids = list(v.values)
            elif hasattr(v, "attrs") and isinstance(getattr(v, "attrs"), dict):
                kids = list(v.attrs.values())
            elif isinstance(v, (list, tuple)) and depth < 2 and len(v) <= 8:
                kids = list(v)
            for k in kids:
                for t in tables_in(k, depth + 1):
                    yield t
        if not found:
            for k_, v in env.items():
                if k_ not in used:
                    continue
                for t in tables_in(v):
                    if t not in found:
                        found.append(t)
        if not found and isinstance(stop_error, WalkStarted):
            # the walk started below the function's own statements: the innermost running frame that holds a cone table
            for fr_ in reversed(stop_error.frames):
                here = []
                for v in fr_.values():
                    for t in tables_in(v):
                        if t not in here:
                            here.append(t)
                if here:
                    found = here
                    break
        if not found and stop_error is not None:
            raise stop_error
        if len(found) > 1:
            raise AnalysisError("%s genhkl_base: several cone tables are alive when the walk starts for Laue %r / %r" % (self.rel, Laue, cc))
        return found[0] if found else None

    def table(self, Laue, cc, csys=None):
        key = (Laue, cc, csys)
        if key not in self._cache:
            self._cache[key] = self._evaluate(Laue, cc, csys)
        return self._cache[key]

    def table_key(self, Laue, cc, csys=None):
        return repr(self.table(Laue, cc, csys))

    def select(self, Laue, cc, csys=None):
        t = self.table(Laue, cc, csys)
        return [] if t is None else [{"guard": None, "table": t, "line": self.fn.lineno}]

    def count(self, settings):
        return len({self.table_key(s.Laue, s.cell_choice, s.crystal_system) for s in settings} - {"None"})


def extract_segm(rel):
    return SegmModel(rel)


def select_segm(segm, Laue, cell_choice, crystal_system=None):
    """the cone table that reaches the walk for this combination: [] or [hit]"""
    return segm.select(Laue, cell_choice, crystal_system)


# --------------------------------------------------------------------------
# symmetry.permutations
# --------------------------------------------------------------------------

def extract_permutations(rel="xfab/symmetry.py"):
    """-> dict system -> (declared_n, {index: matrix}, line)"""
    m = module(rel)
    fn = m.func("permutations")
    param = fn.args.args[0].arg
    out = {}
    for stmt in body_wo_doc(fn):
        if isinstance(stmt, ast.If):
            t = stmt.test
            if isinstance(t, ast.Compare) and len(t.ops) == 1 and isinstance(t.ops[0], ast.Eq) \
                    and isinstance(t.left, ast.Name) and t.left.id == param \
                    and isinstance(t.comparators[0], ast.Constant):
                k = t.comparators[0].value
                n_decl = None
                mats = {}
                for s2 in stmt.body:
                    if isinstance(s2, ast.Assign) and len(s2.targets) == 1:
                        tg = s2.targets[0]
                        if isinstance(tg, ast.Name) and tg.id == "perm":
                            v = s2.value
                            if not (isinstance(v, ast.Call) and isinstance(v.func, ast.Attribute)
                                    and v.func.attr == "zeros" and len(v.args) == 1):
                                raise AnalysisError("permutations(%s): perm not created by zeros((n,3,3))" % k)
                            shp = literal(v.args[0])
                            if len(shp) != 3 or shp[1:] != (3, 3):
                                raise AnalysisError("permutations(%s): unexpected shape %s" % (k, shp))
                            n_decl = shp[0]
                            continue
                        if isinstance(tg, ast.Subscript) and isinstance(tg.value, ast.Name) and tg.value.id == "perm":
                            idx = literal(tg.slice)
                            if idx in mats:
                                raise AnalysisError("permutations(%s): perm[%s] stored twice" % (k, idx))
                            mats[idx] = literal(s2.value)
                            continue
                    raise AnalysisError("permutations(%s): unrecognised statement line %d" % (k, s2.lineno))
                if stmt.orelse:
                    raise AnalysisError("permutations(%s): unexpected else" % k)
                out[k] = (n_decl, mats, stmt.lineno)
    return out


def frac_of(x, den=24, tol=1e-6):
    """Nearest k/den to the decimal literal x; None if farther than tol."""
    k = round(x * den)
    if abs(x - k / den) > tol:
        return None
    return Fraction(k, den)
