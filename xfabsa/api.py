"""
The functions and methods of the pinned tree that the properties anchor by name (every module-level
function and every method that exists today).  A module-level function that is *not* listed here is a
helper introduced by a later edit: the engines see through it (inline it at its call sites) instead of
treating its name as an anchor, so extracting or merging helpers neither hides a change from a rule nor
trips one.  Regenerate with tools/mkapi.py only when an anchor is deliberately added.
"""
API = {'xfab/__init__.py': [],
 'xfab/atomlib.py': [],
 'xfab/checks.py': ['_checkState.__init__', '_checkState.activated', '_check_euler_angles', '_check_rotation_matrix', '_check_ubi_matrix'],
 'xfab/detector.py': ['det_coor', 'det_coor2', 'det_v', 'detector_to_lab', 'detyz_to_eta_and_radpix', 'detyz_to_xy', 'distort',
                      'eta_and_radpix_to_detyz', 'image_flipping', 'trans_orientation', 'xy_to_detyz'],
 'xfab/laue.py': ['_arctan2', 'a_to_cell', 'b_to_cell', 'b_to_epsilon', 'b_to_epsilon_old', 'cell_invert', 'cell_volume', 'detect_tilt',
                  'epsilon_to_b', 'epsilon_to_b_old', 'euler_to_u', 'find_omega', 'find_omega_general', 'find_omega_quart', 'find_omega_wedge',
                  'form_a_mat', 'form_a_mat_inv', 'form_b_mat', 'form_omega_mat', 'form_omega_mat_general', 'genhkl', 'genhkl_all', 'genhkl_base',
                  'genhkl_unique', 'quart_to_omega', 'reduce_cell', 'rod_to_u', 'sintl', 'sysabs', 'sysabs_unique', 'tth', 'tth2', 'u_to_euler',
                  'u_to_rod', 'u_to_ubi', 'ub_to_u_b', 'ubi_to_cell', 'ubi_to_rod', 'ubi_to_u', 'ubi_to_u_and_eps', 'ubi_to_u_b'],
 'xfab/parameters.py': ['par.__init__', 'par.fromstringlist', 'par.tostringlist', 'parameters.__init__', 'parameters.addpar',
                        'parameters.dumbtypecheck', 'parameters.get', 'parameters.get_parameters', 'parameters.get_variable_list',
                        'parameters.get_variable_stepsizes', 'parameters.get_variable_values', 'parameters.loadparameters',
                        'parameters.saveparameters', 'parameters.set', 'parameters.set_parameters', 'parameters.set_variable_values',
                        'parameters.set_varylist', 'parameters.update_other', 'parameters.update_yourself', 'read_par_file'],
 'xfab/sg.py': ['sg.__init__'],
 'xfab/sglib.py': ['Sg*'],
 'xfab/structure.py': ['FormFactor', 'StructureFactor', 'Uij2betaij', 'atom_entry.__init__', 'atomlist.__init__', 'atomlist.add_atom',
                       'build_atomlist.CIFopen', 'build_atomlist.CIFread', 'build_atomlist.PDBread', 'build_atomlist.__init__',
                       'build_atomlist.remove_esd', 'int_intensity', 'multiplicity'],
 'xfab/symmetry.py': ['Umis', 'add_perm', 'add_rot', 'permutations', 'rotations'],
 'xfab/tools.py': ['_arctan2', 'a_to_cell', 'b_to_cell', 'b_to_epsilon', 'b_to_epsilon_old', 'cell_invert', 'cell_volume', 'detect_tilt',
                   'epsilon_to_b', 'epsilon_to_b_old', 'euler_to_u', 'find_omega', 'find_omega_general', 'find_omega_quart', 'find_omega_wedge',
                   'form_a_mat', 'form_a_mat_inv', 'form_b_mat', 'form_omega_mat', 'form_omega_mat_general', 'genhkl', 'genhkl_all', 'genhkl_base',
                   'genhkl_unique', 'quart_to_omega', 'reduce_cell', 'rod_to_u', 'sintl', 'sysabs', 'sysabs_unique', 'tth', 'tth2', 'u_to_euler',
                   'u_to_rod', 'u_to_ubi', 'ub_to_u_b', 'ubi_to_cell', 'ubi_to_rod', 'ubi_to_u', 'ubi_to_u_and_eps', 'ubi_to_u_b'],
 'xfab/xfab_logging.py': ['get_module_level_logger']}


def is_helper(mod, name):
    """a module-level function of `mod` that is not an anchor of the pinned tree"""
    return name in getattr(mod, "functions", {}) and name not in API.get(getattr(mod, "rel", ""), ())
