"""checker-side matrices of normal forms built from refs/rotations.py"""
from refs import rotations as RR
from . import numeric as N
from .poly import Rat


def cs(angle_rat):
    """(cos, sin) atoms of an angle given as a normal form"""
    env = {"t": angle_rat}
    return N.ref("cos(t)", env), N.ref("sin(t)", env)


def mat(expr_rows, env):
    return [[N.ref(e, env) for e in row] for row in expr_rows]


def elementary(axis, angle_rat):
    c, s = cs(angle_rat)
    env = {"c": c, "s": s}
    rows = {"x": RR.Rx, "y": RR.Ry, "z": RR.Rz}[axis]("c", "s")
    return mat(rows, env)


def mmul(A, B):
    return [[sum((A[i][k] * B[k][j] for k in range(len(B))), Rat.const(0)) for j in range(len(B[0]))]
            for i in range(len(A))]


def mvec(A, v):
    return [sum((A[i][k] * v[k] for k in range(len(v))), Rat.const(0)) for i in range(len(A))]


def transpose(A):
    return [[A[j][i] for j in range(len(A))] for i in range(len(A[0]))]


def ident():
    return [[Rat.const(1 if i == j else 0) for j in range(3)] for i in range(3)]


def is_proper_rotation(M):
    """M'M = I and det M = 1 in the normal form"""
    MtM = mmul(transpose(M), M)
    ok = all(MtM[i][j].equals(1 if i == j else 0) for i in range(3) for j in range(3))
    det = (M[0][0] * (M[1][1] * M[2][2] - M[1][2] * M[2][1]) - M[0][1] * (M[1][0] * M[2][2] - M[1][2] * M[2][0])
           + M[0][2] * (M[1][0] * M[2][1] - M[1][1] * M[2][0]))
    return ok and det.equals(1)


def rodrigues_passive(r):
    r2 = r[0] * r[0] + r[1] * r[1] + r[2] * r[2]
    U = [[None] * 3 for _ in range(3)]
    for i in range(3):
        for j in range(3):
            t = (1 - r2) * (1 if i == j else 0) + 2 * r[i] * r[j]
            for k in range(3):
                e = RR.LEVI.get((i, j, k), 0)
                if e:
                    t = t + 2 * e * r[k]
            U[i][j] = t / (1 + r2)
    return U


def quaternion(q):
    env = {"q0": q[0], "q1": q[1], "q2": q[2], "q3": q[3]}
    return mat(RR.QUAT, env)
