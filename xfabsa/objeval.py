"""
E7 -- E3 extended to small object models: classes and bound methods, dictionaries as stores, try/except over modelled
exceptions, assertions, files as line buffers and *symbolic text* (the text of a value that is known only by its kind).

The value domain adds
  Sym(name, kind)   an unknown Python value: kind 'word' (a str without blanks that is not a number) or 'other'
  Text(atom)        the repr text of the numeric atom `atom` (KIND[atom] is 'float' or 'int')
  SStr(parts)       a str made of literal pieces, Text and word Syms

Abstract semantics of the conversions (the language guarantees they model): float(repr(x)) == x for a float x,
int(str(i)) == i for an int i, int() rejects the text of a non-integral float, float()/int() reject a word; both tolerate
surrounding white space.  A word / Text is assumed to contain no separator character (blank, newline).
"""
from __future__ import annotations

import ast
from fractions import Fraction

from .core import AnalysisError, unparse
from .poly import Rat, func_atom, single_atom
from .symeval import (Evaluator, Arr, Opaque, Obj, RaiseReached, dict_key, const_int, vkey, _Return)

_IMPORT_CACHE: dict = {}
KIND: dict = {}        # numeric atom -> 'float' | 'int' | 'bigint' (an int beyond 2**53 that no double represents exactly)
INTKINDS = ("int", "bigint")
POSITIVE: set = set()  # atoms known to be >= 1 (lengths of words)


class PyRaise(Exception):
    """an exception raised by a modelled operation (conversion, unpacking, assertion, missing key)"""

    def __init__(self, name, node=None, why=""):
        Exception.__init__(self, "%s %s" % (name, why))
        self.name = name
        self.node = node


class TextOpaque(AnalysisError):
    """an operation that needs the characters of a text the model keeps abstract (the decimal text of a symbolic number)"""


class Sym:
    def __init__(self, name, kind):
        self.name, self.kind = name, kind

    def key(self):
        return "<%s:%s>" % (self.kind, self.name)

    __repr__ = key


class Text:
    def __init__(self, atom):
        self.atom = atom

    def key(self):
        return "text(%s)" % self.atom

    __repr__ = key


class Field:
    """the text of the numeric atom `atom` right-justified in a fixed-width column (PDB style)"""

    def __init__(self, atom, width):
        self.atom, self.width = atom, width

    def key(self):
        return "field(%s,%d)" % (self.atom, self.width)

    __repr__ = key


class SStr:
    def __init__(self, parts):
        out = []
        for p in parts:
            if isinstance(p, SStr):
                out.extend(p.parts)
            elif isinstance(p, str):
                if p:
                    if out and isinstance(out[-1], str):
                        out[-1] += p
                    else:
                        out.append(p)
            else:
                out.append(p)
        self.parts = out

    def key(self):
        return "s(" + "+".join(repr(p) if isinstance(p, str) else p.key() for p in self.parts) + ")"

    __repr__ = key

    @staticmethod
    def part_len(p):
        if isinstance(p, str):
            return Rat.const(len(p))
        if isinstance(p, Field):
            return Rat.const(p.width)
        a_ = "len(%s)" % p.key()
        POSITIVE.add(a_)
        return Rat.atom(a_)

    def find(self, needle):
        """offset of the first occurrence of a literal in the literal pieces (symbolic pieces are numbers / words that do not
        contain it), -1 if absent"""
        off = Rat.const(0)
        for p in self.parts:
            if isinstance(p, str):
                i = p.find(needle)
                if i >= 0:
                    return off + i
            off = off + SStr.part_len(p)
        return Rat.const(-1)

    def cut(self, bound):
        """-> (index of the part, offset inside it) at which the position `bound` (a normal form) falls, or None"""
        off = Rat.const(0)
        for k, p in enumerate(self.parts):
            d = bound - off
            if d.is_const():
                c = d.const_value()
                ln = SStr.part_len(p)
                if c == 0:
                    return (k, 0)
                if c > 0 and ln.is_const() and c < ln.const_value():
                    if isinstance(p, str) and c.denominator == 1:
                        return (k, int(c))
                    return ("inside", k)
            off = off + SStr.part_len(p)
        d = bound - off
        if d.is_const() and d.const_value() >= 0:
            return (len(self.parts), 0)
        return None

    def slice(self, lo, hi):
        """self[lo:hi] for bounds that fall on piece boundaries or inside literal pieces; a cut through a symbolic piece gives a
        distinct 'partial' word"""
        total = Rat.const(0)
        for p in self.parts:
            total = total + SStr.part_len(p)

        def norm(b, default):
            if b is None:
                return default
            if b.is_const() and b.const_value() < 0:
                return total + b
            return b
        lo, hi = norm(lo, Rat.const(0)), norm(hi, total)
        a, b = self.cut(lo), self.cut(hi)
        if a is None or b is None:
            return None
        if a[0] == "inside" or b[0] == "inside":
            k = a[1] if a[0] == "inside" else b[1]
            return Sym("partial(%s)" % self.parts[k].key(), "word")
        (ka, oa), (kb, ob) = a, b
        if (ka, oa) > (kb, ob):
            return ""
        out = []
        for k in range(ka, min(kb + 1, len(self.parts))):
            p = self.parts[k]
            if isinstance(p, str):
                s0 = oa if k == ka else 0
                s1 = ob if k == kb else len(p)
                out.append(p[s0:s1])
            elif k < kb:
                out.append(p)
        return SStr(out).simplify()

    def simplify(self):
        if not self.parts:
            return ""
        if len(self.parts) == 1 and isinstance(self.parts[0], str):
            return self.parts[0]
        if len(self.parts) == 1 and isinstance(self.parts[0], Sym) and self.parts[0].kind == "word":
            return self.parts[0]
        return self


def p_is_const_den(d):
    from .poly import p_is_const, p_const_value
    return p_is_const(d.den) and p_const_value(d.den) > 0


def num_atom(name, kind):
    KIND[name] = kind
    return Rat.atom(name)


def okey(v):
    """comparison key of any value of the extended domain"""
    if isinstance(v, (Sym, Text, SStr)):
        return v.key()
    if isinstance(v, dict):
        return "{" + ",".join("%r:%s" % (k, okey(x)) for k, x in sorted(v.items(), key=lambda kv: repr(kv[0]))) + "}"
    if isinstance(v, (list, tuple)):
        return "[" + ",".join(okey(x) for x in v) + "]"
    if isinstance(v, Obj):
        return "obj(%s)" % v.name
    return vkey(v)


def exc_name_of(e):
    if isinstance(e, PyRaise):
        return e.name
    if getattr(e, "resolved", None):
        return e.resolved
    exc = e.node.exc
    if exc is None:
        return None
    if isinstance(exc, ast.Call):
        exc = exc.func
    return getattr(exc, "id", getattr(exc, "attr", None))


CATCH_ALL = ("Exception", "BaseException")
PARENTS = {"UnboundLocalError": ("NameError",), "KeyError": ("LookupError",), "IndexError": ("LookupError",), "ZeroDivisionError": ("ArithmeticError",),
           "FileNotFoundError": ("OSError", "IOError"), "UnicodeDecodeError": ("ValueError",)}


class ObjEvaluator(Evaluator):
    def __init__(self, mod, **kw):
        kw.setdefault("inline", True)
        Evaluator.__init__(self, mod, **kw)
        self.check_asserts = True
        self.open_policy = None          # (filename, mode) -> file object (Obj with pymethods)
        self.nobj = 0
        self.log_calls = []              # logger.<level>(...) statements met

    # -------------------------------------------------------------- statements
    def exec_stmt(self, st, env):
        if isinstance(st, ast.Try):
            try:
                self.exec_block(st.body, env)
            except (PyRaise, RaiseReached) as e:
                name = exc_name_of(e)
                for h in st.handlers:
                    if self.handler_matches(h, name, env):
                        if h.name:
                            env[h.name] = Sym("exception:%s" % name, "other")
                        try:
                            self.exec_block(h.body, env)
                        finally:
                            self.exec_block(st.finalbody, env)
                        return
                self.exec_block(st.finalbody, env)
                raise
            except BaseException:
                # return / break / continue (and analysis errors) leave through the finally block
                self.exec_block(st.finalbody, env)
                raise
            self.exec_block(st.orelse, env)
            self.exec_block(st.finalbody, env)
            return
        if isinstance(st, ast.Assert) and self.check_asserts:
            try:
                v = self.eval(st.test, env)
            except AnalysisError:
                v = None
            if v is False:
                raise PyRaise("AssertionError", st, unparse(st.test))
            if v is not True:
                self.trace.append(("assert", unparse(st.test)))
            return
        if isinstance(st, ast.Expr) and isinstance(st.value, ast.Call):
            f = st.value.func
            if isinstance(f, ast.Attribute) and isinstance(f.value, ast.Name) and f.value.id in ("logger", "logging"):
                self.log_calls.append((f.attr, st.lineno))
                return
            if isinstance(f, ast.Attribute) and f.attr == "append" and len(st.value.args) == 1:
                tgt = self.eval(f.value, env)
                if isinstance(tgt, list):
                    tgt.append(self.eval(st.value.args[0], env))
                    return
        if isinstance(st, ast.With):
            for item in st.items:
                v = self.eval(item.context_expr, env)
                if item.optional_vars is not None:
                    self.assign(item.optional_vars, v, env)
            try:
                self.exec_block(st.body, env)
            finally:
                for item in st.items:
                    v = self.eval(item.optional_vars, env) if item.optional_vars is not None else None
                    if isinstance(v, Obj) and "close" in getattr(v, "pymethods", {}):
                        v.pymethods["close"]()
            return
        if isinstance(st, ast.For):
            it = self.eval(st.iter, env)
            if isinstance(it, Obj) and "__iter__" in getattr(it, "pymethods", {}):
                it = it.pymethods["__iter__"]()
            if isinstance(it, dict):
                it = list(it)
            if isinstance(it, (list, tuple)) and not isinstance(it, Arr):
                from .symeval import _Break, _Continue
                if len(it) > 4096:
                    raise AnalysisError("E7: loop too long (line %d)" % st.lineno)
                broke = False
                for x in list(it):
                    self.assign(st.target, x if not isinstance(x, int) or isinstance(x, bool) else Rat.const(x), env)
                    try:
                        self.exec_block(st.body, env)
                    except _Break:
                        broke = True
                        break
                    except _Continue:
                        continue
                if not broke:
                    self.exec_block(st.orelse, env)
                return
            self.hand_down(st.iter, it)
        if isinstance(st, ast.Delete):
            for t in st.targets:
                if isinstance(t, ast.Subscript):
                    base = self.eval(t.value, env)
                    if isinstance(base, dict):
                        k = dict_key(self.eval(t.slice, env))
                        if k not in base:
                            raise PyRaise("KeyError", st)
                        del base[k]
                        continue
                raise AnalysisError("E7: unsupported del (line %d)" % st.lineno)
            return
        return Evaluator.exec_stmt(self, st, env)

    def index_error(self, node):
        raise PyRaise("IndexError", node, "index out of range")

    def handler_matches(self, h, name, env):
        if h.type is None:
            return True
        types = h.type.elts if isinstance(h.type, ast.Tuple) else [h.type]
        for t in types:
            tn = getattr(t, "id", getattr(t, "attr", None))
            if tn == name or tn in CATCH_ALL or tn in PARENTS.get(name, ()):
                return True
        return False

    def assign(self, target, val, env):
        if isinstance(target, ast.Subscript):
            base = self.eval(target.value, env)
            if isinstance(base, dict):
                k = dict_key(self.eval(target.slice, env))
                if isinstance(k, (Rat, Sym, SStr)):
                    raise AnalysisError("E7: store under a non-constant key (line %d)" % target.lineno)
                base[k] = val
                return
        if isinstance(target, (ast.Tuple, ast.List)) and isinstance(val, (list, tuple)) and len(val) != len(target.elts) \
                and not any(isinstance(e, ast.Starred) for e in target.elts):
            raise PyRaise("ValueError", target, "unpacking %d values into %d names" % (len(val), len(target.elts)))
        if isinstance(target, ast.Attribute):
            base = self.eval(target.value, env)
            if isinstance(base, Obj):
                base.attrs[target.attr] = val
                base.stores.append((target.attr, val))
                return
        return Evaluator.assign(self, target, val, env)

    # -------------------------------------------------------------- expressions
    def e_Name(self, node, env):
        if node.id in env:
            return env[node.id]
        if node.id in getattr(self.mod, "classes", {}):
            return ("class", node.id)
        if node.id in ("open", "hasattr", "getattr", "setattr", "type", "dict", "print", "repr", "set", "object", "slice", "hash", "globals", "property"):
            return ("builtin", node.id)
        try:
            return Evaluator.e_Name(self, node, env)
        except AnalysisError as e:
            stack = self.__dict__.get("_locals_stack") or []
            if "unbound name" in str(e) and stack and node.id in stack[-1]:
                # a local of the running function that no executed statement has bound: Python raises UnboundLocalError (a
                # NameError).  Any other name this interpreter cannot resolve is its own gap, not the program's error.
                raise PyRaise("NameError", node, node.id)
            raise

    def e_Constant(self, node, env):
        if isinstance(node.value, bytes):
            raise AnalysisError("E7: bytes literal")
        return Evaluator.e_Constant(self, node, env)

    def e_JoinedStr(self, node, env):
        parts = []
        for v in node.values:
            if isinstance(v, ast.Constant):
                parts.append(v.value)
            elif isinstance(v, ast.FormattedValue) and v.format_spec is None and v.conversion in (-1, 115):
                parts.append(self.to_text(self.eval(v.value, env), node))
            elif isinstance(v, ast.FormattedValue):
                # {x!r}, {x:.3f}: the text depends on the value in a way the model does not follow: a text of its own
                x_ = self.eval(v.value, env)
                t_ = self.to_text(x_, node)
                parts.append(t_ if isinstance(t_, str) and v.format_spec is None and v.conversion == 114 and False
                             else Sym("format(%s)" % ast.unparse(v)[:60], "text"))
            else:
                raise AnalysisError("E7: formatted value of unknown form (line %d)" % node.lineno)
        return SStr(parts).simplify()

    def e_Attribute(self, node, env):
        base = self.eval(node.value, env)
        r = self.object_attribute(base, node.attr, node)
        if r is not NotImplemented:
            return r
        if isinstance(base, (SStr, Sym, str, dict, list)) or (isinstance(base, tuple) and len(base) == 2 and base[0] in ("regex", "rematch")):
            return ("method", base, node.attr)
        self.hand_down(node.value, base)
        r = Evaluator.e_Attribute(self, node, env)
        if isinstance(r, tuple) and len(r) == 2 and r[0] == "import":
            v = self.resolve_import(r[1])
            if v is not None and not (isinstance(v, tuple) and len(v) == 3 and v[0] == "foreignclass"):
                return v            # (a class stays an import name: calls of it go through the rule's import policy first)
        return r

    def get_attribute(self, base, attr, node):
        r = self.object_attribute(base, attr, node)
        if r is not NotImplemented:
            return r
        return Evaluator.get_attribute(self, base, attr, node)

    # ---- classes ------------------------------------------------------------------------------------------------------------
    def class_info(self, cname):
        """-> dict(kind = plain | namedtuple | enum, fields, members, attrs (class-level assignments, evaluated lazily), node)"""
        cache = self.__dict__.setdefault("_class_info", {})
        if cname in cache:
            return cache[cname]
        cls = self.mod.classes[cname]
        info = {"kind": "plain", "fields": None, "node": cls, "name": cname, "bases": []}
        for b in cls.bases:
            txt = unparse(b)
            if isinstance(b, ast.Call) and txt.split("(")[0].split(".")[-1] == "namedtuple":
                v = self.eval(b, {})
                if isinstance(v, tuple) and v and v[0] == "ntclass":
                    info["kind"], info["fields"] = "namedtuple", tuple(v[2])
                    continue
            if isinstance(b, ast.Name) and b.id in getattr(self.mod, "assigns", {}):
                v = self.module_constant(b.id)
                if isinstance(v, tuple) and v and v[0] == "ntclass":
                    info["kind"], info["fields"] = "namedtuple", tuple(v[2])
                    continue
            if txt.split(".")[-1] in ("IntEnum", "Enum", "IntFlag"):
                info["kind"] = "enum"
                info["int_enum"] = txt.split(".")[-1] != "Enum"
                continue
            if isinstance(b, ast.Name) and b.id in self.mod.classes:
                info["bases"].append(b.id)
                continue
            if txt in ("object",):
                continue
            raise AnalysisError("E7: class %s derives from `%s`, which is not modelled" % (cname, txt[:40]))
        cache[cname] = info
        return info

    def class_attr(self, cname, attr, node):
        """a class-level assignment NAME = value of the class (or of a base class of the repository), evaluated once"""
        info = self.class_info(cname)
        cache = info.setdefault("attr_values", {})
        if attr in cache:
            return cache[attr]
        for st in info["node"].body:
            tgt = st.targets[0] if isinstance(st, ast.Assign) and len(st.targets) == 1 else st.target if isinstance(st, ast.AnnAssign) and st.value is not None else None
            if isinstance(tgt, ast.Name) and tgt.id == attr:
                env0 = {}
                # earlier class-level names are visible in the class body
                for st2 in info["node"].body:
                    if st2 is st:
                        break
                    if isinstance(st2, ast.FunctionDef):
                        env0[st2.name] = ("closure", st2, {})
                    t2 = st2.targets[0] if isinstance(st2, ast.Assign) and len(st2.targets) == 1 else None
                    if isinstance(t2, ast.Name) and t2.id in cache:
                        env0[t2.id] = cache[t2.id]
                cache[attr] = self.eval(st.value, env0)
                return cache[attr]
        for b in info["bases"]:
            v = self.class_attr(b, attr, node)
            if v is not NotImplemented:
                return v
        return NotImplemented

    def class_function(self, cname, name):
        """-> (FunctionDef, kind) with kind in method | staticmethod | classmethod | property, searching base classes too"""
        info = self.class_info(cname)
        for n_ in info["node"].body:
            if isinstance(n_, ast.FunctionDef) and n_.name == name:
                decs = [unparse(d).split(".")[-1] for d in n_.decorator_list]
                kind = "method"
                for d in decs:
                    if d in ("staticmethod", "classmethod", "property", "cached_property"):
                        kind = "property" if d == "cached_property" else d
                    elif d.split("(")[0] in ("lru_cache", "cache", "wraps"):
                        pass
                    else:
                        raise AnalysisError("E7: method %s.%s is wrapped by the decorator `%s`" % (cname, name, d[:40]))
                return n_, kind
        for b in info["bases"]:
            r = self.class_function(b, name)
            if r is not None:
                return r
        return None

    def iterate_tagged(self, v, node):
        if v[0] == "class" and v[1] in getattr(self.mod, "classes", {}) and self.class_info(v[1])["kind"] == "enum":
            return [m for _nm, m in self.enum_members(v[1])]
        return Evaluator.iterate_tagged(self, v, node)

    def enum_members(self, cname):
        info = self.class_info(cname)
        out = []
        for st in info["node"].body:
            if isinstance(st, ast.Assign) and len(st.targets) == 1 and isinstance(st.targets[0], ast.Name) and not st.targets[0].id.startswith("_"):
                v = self.class_attr(cname, st.targets[0].id, st)
                out.append((st.targets[0].id, v))
        return out

    def home_of(self, base):
        """the evaluator of the module in which the class of an instance is defined (this one, usually)"""
        m = getattr(base, "cls_mod", None)
        if m is None or m is self.mod or getattr(m, "rel", None) == self.mod.rel:
            return self
        return self.evaluator_for(m)

    def object_attribute(self, base, attr, node):
        """attribute access on instances, named-tuple instances, classes and enumerations; NotImplemented for other values"""
        from .symeval import NTuple
        if isinstance(base, (Obj, NTuple)):
            home = self.home_of(base)
            if home is not self:
                r = home.object_attribute(base, attr, node)
                if isinstance(r, tuple) and r and r[0] == "boundmethod" and len(r) == 3:
                    return ("pyfunc", lambda *a, _h=home, _r=r, **kw: _h.call_bound(_r[2], _r[1], list(a), dict(kw), node))
                if isinstance(r, tuple) and r and r[0] == "closure":
                    return ("pyfunc", lambda *a, _h=home, _r=r, **kw: _h.call_closure(_r, list(a), dict(kw), node))
                return r
        if isinstance(base, tuple) and len(base) == 2 and base[0] == "class" and base[1] in getattr(self.mod, "classes", {}):
            cname = base[1]
            info = self.class_info(cname)
            if info["kind"] == "enum":
                for nm, v in self.enum_members(cname):
                    if nm == attr:
                        return v
                if attr == "__members__":
                    return dict(self.enum_members(cname))
            if info["kind"] == "namedtuple" and attr == "_fields":
                return tuple(info["fields"])
            v = self.class_attr(cname, attr, node)
            if v is not NotImplemented:
                return v
            fk = self.class_function(cname, attr)
            if fk is not None:
                fn, kind = fk
                if kind == "staticmethod":
                    return ("closure", fn, {})
                if kind == "classmethod":
                    return ("boundmethod", base, fn)
                return ("closure", fn, {})          # a plain function reached through the class: self is passed explicitly
            raise PyRaise("AttributeError", node, "class %s has no attribute %s" % (cname, attr))
        owner = None
        if isinstance(base, Obj):
            origin = getattr(base, "origin", None)
            if origin is not None and ("%s.%s" % (origin, attr)) in (self.import_values or {}):
                return self.import_values["%s.%s" % (origin, attr)]       # the value a rule gives this attribute (the switch)
            if attr in base.attrs:
                return base.attrs[attr]
            pm = getattr(base, "pymethods", {})
            if attr in pm:
                return ("pyfunc", pm[attr])
            cls = getattr(base, "cls", None)
            owner = cls.name if cls is not None else None
        elif isinstance(base, NTuple):
            if attr in base.nt_fields:
                return base[base.nt_fields.index(attr)]
            if attr == "_fields":
                return tuple(base.nt_fields)
            if attr in ("_replace", "_asdict", "count", "index"):
                return ("method", base, attr)
            owner = base.cls.name if getattr(base, "cls", None) is not None else None
            if owner is None:
                raise PyRaise("AttributeError", node, "%s has no attribute %s" % (base.nt_name, attr))
        elif isinstance(base, Rat) and attr in ("value", "real"):
            return base                      # an IntEnum member is its value
        else:
            return NotImplemented
        if owner is not None and owner in getattr(self.mod, "classes", {}):
            fk = self.class_function(owner, attr)
            if fk is not None:
                fn, kind = fk
                if kind == "property":
                    return self.call_bound(fn, base, [], {}, node)
                if kind == "staticmethod":
                    return ("closure", fn, {})
                if kind == "classmethod":
                    return ("boundmethod", ("class", owner), fn)
                return ("boundmethod", base, fn)
            v = self.class_attr(owner, attr, node)
            if isinstance(v, tuple) and len(v) == 2 and v[0] == "propertyobj":
                return self.call_value(v[1], [base], node)       # NAME = property(getter) in the class body
            if v is not NotImplemented:
                return v
        if isinstance(base, Obj) and owner is not None and owner in getattr(self.mod, "classes", {}) and not attr.startswith("__"):
            fk = self.class_function(owner, "__getattr__")
            if fk is not None:
                return self.call_bound(fk[0], base, [attr], {}, node)       # the class answers unknown attributes itself
        if isinstance(base, Obj):
            if getattr(base, "pymethods", {}):
                raise AnalysisError("E7: the model of %s has no attribute `%s` (line %d)" % (base.name.split("#")[0], attr, node.lineno))
            raise PyRaise("AttributeError", node, "%s has no attribute %s" % (base.name, attr))
        raise PyRaise("AttributeError", node, "%s has no attribute %s" % (getattr(base, "nt_name", "object"), attr))

    def import_exists(self, dotted):
        """does the dotted name denote a module of the repository or a top-level name of one?"""
        import os
        from . import core as _core
        parts = dotted.split(".")
        rel = "/".join(parts)
        if os.path.exists(_core.repo_path(rel + ".py")) or os.path.exists(_core.repo_path(rel + "/__init__.py")):
            return True
        try:
            other = _core.module("/".join(parts[:-1]) + ".py")
        except AnalysisError:
            try:
                other = _core.module("/".join(parts[:-1]) + "/__init__.py")
            except AnalysisError:
                return False
        nm = parts[-1]
        return nm in other.functions or nm in other.classes or nm in other.assigns or nm in other.imports

    def resolve_import(self, dotted):
        """a module-level constant (or re-exported import, or class) of another module of the repository, evaluated there;
        a package name stands for its __init__ module"""
        parts = dotted.split(".")
        from . import core as _core
        for cut in range(len(parts) - 1, 0, -1):
            other = None
            for rel in ("/".join(parts[:cut]) + ".py", "/".join(parts[:cut]) + "/__init__.py"):
                try:
                    other = _core.module(rel)
                    break
                except AnalysisError:
                    continue
            if other is None:
                continue
            rest = parts[cut:]
            if len(rest) != 1:
                return None
            name = rest[0]
            if name in other.assigns:
                key = (other.rel, name)
                if key not in _IMPORT_CACHE:
                    v = FullEvaluator(other, max_depth=10).module_constant(name)
                    if isinstance(v, Obj):
                        v.origin = dotted          # e.g. xfab.CHECKS: attributes a rule models (import_values) are looked up under this name
                    _IMPORT_CACHE[key] = v
                return _IMPORT_CACHE[key]
            if name in other.classes:
                return ("foreignclass", other.rel, name) if getattr(self, "_want_classes", False) else None
            if name in other.imports and not other.imports[name].startswith(parts[0] + ".") :
                return ("import", other.imports[name])
            if name in other.imports and other.imports[name] != dotted:
                return self.resolve_import(other.imports[name])      # re-exported from a sibling module
            return None
        return None

    def find_method(self, obj, name):
        cls = getattr(obj, "cls", None)
        if cls is None:
            return None
        if cls.name in getattr(self.mod, "classes", {}) and self.mod.classes[cls.name] is cls:
            fk = self.class_function(cls.name, name)
            return fk[0] if fk is not None else None
        for n_ in cls.body:
            if isinstance(n_, ast.FunctionDef) and n_.name == name:
                return n_
        return None

    def e_Subscript(self, node, env, base=Evaluator._NOBASE):
        if base is Evaluator._NOBASE:
            base = self.eval(node.value, env)
        if not isinstance(node.slice, (ast.Slice, ast.Tuple, ast.Constant)) and not isinstance(base, dict):
            sv = self.eval(node.slice, env)
            if isinstance(sv, slice):
                # a slice object used as subscript: the same as the slice written out
                def c_(x_):
                    n_ = ast.Constant(value=x_)
                    return ast.copy_location(n_, node)
                sl = ast.Slice(lower=None if sv.start is None else c_(sv.start), upper=None if sv.stop is None else c_(sv.stop),
                               step=None if sv.step is None else c_(sv.step))
                node2 = ast.copy_location(ast.Subscript(value=node.value, slice=ast.copy_location(sl, node), ctx=node.ctx), node)
                return self.e_Subscript(node2, env, base)
            self.hand_down(node.slice, sv)
        if isinstance(base, dict):
            k = dict_key(self.eval(node.slice, env))
            if isinstance(k, Rat) and self.numeric_table_lookup(base, k):
                raise PyRaise("KeyError", node, k.key())          # the generic number is none of the tabulated ones
            if isinstance(k, (Rat, Sym, SStr)):
                raise AnalysisError("E7: lookup with a non-constant key (line %d)" % node.lineno)
            try:
                present = k in base
            except TypeError:
                raise PyRaise("TypeError", node, "unhashable key")
            if not present:
                raise PyRaise("KeyError", node, repr(k))
            return base[k]
        if isinstance(base, list) and not isinstance(node.slice, (ast.Slice, ast.Tuple)):
            i = const_int(self.eval(node.slice, env))
            if i is not None:
                try:
                    return base[i]
                except IndexError:
                    raise PyRaise("IndexError", node)
        if isinstance(base, list) and isinstance(node.slice, ast.Slice):
            lo = const_int(self.eval(node.slice.lower, env)) if node.slice.lower is not None else None
            hi = const_int(self.eval(node.slice.upper, env)) if node.slice.upper is not None else None
            stp = const_int(self.eval(node.slice.step, env)) if node.slice.step is not None else None
            return base[slice(lo, hi, stp)]
        if isinstance(base, (str, SStr, Sym)) and isinstance(node.slice, ast.Slice) and node.slice.step is None:
            lo = self.eval(node.slice.lower, env) if node.slice.lower is not None else None
            hi = self.eval(node.slice.upper, env) if node.slice.upper is not None else None
            if isinstance(base, str) and (lo is None or const_int(lo) is not None) and (hi is None or const_int(hi) is not None):
                return base[slice(const_int(lo) if lo is not None else None, const_int(hi) if hi is not None else None)]
            s_ = base if isinstance(base, SStr) else SStr([base])
            from .symeval import scalar as _scalar
            r = s_.slice(_scalar(lo) if lo is not None else None, _scalar(hi) if hi is not None else None)
            if r is None:
                raise AnalysisError("E7: slice of symbolic text at a position that is not a piece boundary (line %d)" % node.lineno)
            return r
        if isinstance(base, SStr) and not isinstance(node.slice, (ast.Slice, ast.Tuple)):
            i = const_int(self.eval(node.slice, env))
            if i is not None:
                r = base.slice(Rat.const(i), Rat.const(i + 1) if i != -1 else None)
                if r is None:
                    raise AnalysisError("E7: character %d of symbolic text (line %d)" % (i, node.lineno))
                return r
        return Evaluator.e_Subscript(self, node, env, base)

    def foreign_object_call(self, dotted, args, kwargs, node):
        """a class of another module of the repository, or a method of an object defined there (CHECKS.rotation_matrix) --
        consulted after the rule's import policy has declined the name"""
        parts = dotted.split(".")
        if parts[0] != "xfab":
            return NotImplemented
        self._want_classes = True
        try:
            v = self.resolve_import(dotted)
        finally:
            self._want_classes = False
        if isinstance(v, tuple) and len(v) == 3 and v[0] == "foreignclass":
            return self.dispatch_call(v, args, kwargs, node)
        if len(parts) >= 3:
            owner = self.resolve_import(".".join(parts[:-1]))
            if isinstance(owner, Obj) and getattr(owner, "cls", None) is not None:
                return self.dispatch_call(self.object_attribute(owner, parts[-1], node), args, kwargs, node)
        return NotImplemented

    def dispatch_call(self, f, args, kwargs, node):
        if isinstance(f, tuple) and len(f) == 3 and f[0] == "foreignclass":
            from . import core as _core
            other = _core.module(f[1])
            return self.evaluator_for(other).instantiate(f[2], list(args), dict(kwargs), node)
        if isinstance(f, tuple) and f and f[0] == "class" and f[1] in getattr(self.mod, "classes", {}):
            return self.instantiate(f[1], list(args), dict(kwargs), node)
        if isinstance(f, tuple) and f and f[0] == "boundmethod":
            return self.call_bound(f[2], f[1], list(args), dict(kwargs), node)
        if isinstance(f, tuple) and f and f[0] == "pyfunc":
            return f[1](*args, **kwargs)
        from .symeval import NTuple as _NT
        if isinstance(f, (Obj, _NT)) and getattr(f, "cls", None) is not None:
            # an instance of a class that defines __call__
            m_ = self.object_attribute(f, "__call__", node)
            if m_ is not NotImplemented:
                return self.dispatch_call(m_, args, kwargs, node)
        return Evaluator.dispatch_call(self, f, args, kwargs, node)

    def new_obj(self, name, cls=None, **attrs):
        self.nobj += 1
        o = Obj("%s#%d" % (name, self.nobj), **attrs)
        o.cls = cls
        o.pymethods = {}
        return o

    def instantiate(self, cname, args, kwargs, node):
        from .symeval import NTuple
        cls = self.mod.classes[cname]
        home = self.home_evaluator(cls)
        if home is not self:
            return home.instantiate(cls.name, args, kwargs, node)
        info = self.class_info(cname)
        if info["kind"] == "namedtuple":
            if self.class_function(cname, "__new__") is not None or self.class_function(cname, "__init__") is not None:
                raise AnalysisError("E7: named-tuple class %s with its own constructor (line %d)" % (cname, node.lineno))
            fields = info["fields"]
            vals = list(args) + [None] * (len(fields) - len(args))
            given = set(range(len(args)))
            for k_, v_ in kwargs.items():
                if k_ not in fields or fields.index(k_) in given:
                    raise PyRaise("TypeError", node, "%s() got an unexpected / repeated field %s" % (cname, k_))
                vals[fields.index(k_)] = v_
                given.add(fields.index(k_))
            if len(args) > len(fields) or len(given) != len(fields):
                raise PyRaise("TypeError", node, "%s() takes %d fields" % (cname, len(fields)))
            nt = NTuple(cname, fields, vals, klass=cls)
            nt.cls_mod = self.mod
            return nt
        if info["kind"] == "enum":
            if len(args) != 1 or kwargs:
                raise PyRaise("TypeError", node, "%s() takes one value" % cname)
            for _nm, v in self.enum_members(cname):
                if okey(v) == okey(args[0]):
                    return v
            if isinstance(args[0], Rat) and not args[0].is_const():
                raise AnalysisError("E7: %s(<symbolic value>) (line %d)" % (cname, node.lineno))
            raise PyRaise("ValueError", node, "%s is not a valid %s" % (okey(args[0]), cname))
        o = self.new_obj(cname, cls)
        o.cls_mod = self.mod
        fk = self.class_function(cname, "__init__")
        if fk is not None:
            self.call_bound(fk[0], o, args, kwargs, node)
        elif args or kwargs:
            raise PyRaise("TypeError", node, "%s() takes no arguments" % cname)
        o.stores = []
        return o

    def call_bound(self, fn, obj, args, kwargs, node):
        home = self.home_evaluator(fn)
        if home is not self:
            return home.call_bound(fn, obj, args, kwargs, node)
        if self.depth >= self.max_depth:
            raise AnalysisError("E7: call depth exceeded at %s" % fn.name)
        a = fn.args
        params = [x.arg for x in list(getattr(a, "posonlyargs", [])) + list(a.args)]
        env = {}
        allargs = [obj] + list(args)
        if len(allargs) > len(params) and not a.vararg:
            raise PyRaise("TypeError", node, "too many arguments for %s" % fn.name)
        nd = len(a.defaults)
        extra = dict(kwargs)
        for i, p in enumerate(params):
            if i < len(allargs):
                env[p] = allargs[i]
            elif p in extra:
                env[p] = extra.pop(p)
            else:
                j = i - (len(params) - nd)
                if j < 0:
                    raise PyRaise("TypeError", node, "missing argument %s of %s" % (p, fn.name))
                env[p] = self.eval_default(a.defaults[j])
        if a.vararg:
            env[a.vararg.arg] = tuple(allargs[len(params):])
        for k_, d_ in zip(a.kwonlyargs, a.kw_defaults):
            if k_.arg in extra:
                env[k_.arg] = extra.pop(k_.arg)
            elif d_ is not None:
                env[k_.arg] = self.eval_default(d_)
            else:
                raise PyRaise("TypeError", node, "missing keyword-only argument %s of %s" % (k_.arg, fn.name))
        if a.kwarg:
            env[a.kwarg.arg] = extra
        elif extra:
            raise PyRaise("TypeError", node, "unexpected keyword %s for %s" % (sorted(extra), fn.name))
        from .symeval import is_generator, local_names
        gen = is_generator(fn)
        if gen:
            env["$yield"] = []      # a generator method is run to completion: the caller gets the list of yielded values
        self.__dict__.setdefault("_locals_stack", []).append(local_names(fn))
        self.depth += 1
        try:
            self.exec_block(fn.body, env)
        except _Return as r:
            if not gen:
                return r.value
        finally:
            self.depth -= 1
            self._locals_stack.pop()
        return env["$yield"] if gen else None

    # -------------------------------------------------------------- operators
    def binop(self, op, a, b, node):
        if isinstance(op, ast.Mod) and isinstance(a, str):
            vals = b if isinstance(b, tuple) else (b,)
            return self.format_percent(a, vals, node)
        if isinstance(op, ast.Add) and isinstance(a, (str, SStr, Sym)) and isinstance(b, (str, SStr, Sym)):
            return SStr([a, b]).simplify()
        if isinstance(op, (ast.Add, ast.Sub, ast.Mult, ast.Div)) and isinstance(a, Rat) and isinstance(b, Rat):
            # mixed int / float arithmetic converts the int operand to float first
            ka, kb = self.type_of(a), self.type_of(b)
            if ka == "int" and kb == "float" and single_atom(a) in KIND:
                a = func_atom("float", a)
            elif kb == "int" and ka == "float" and single_atom(b) in KIND:
                b = func_atom("float", b)
        return Evaluator.binop(self, op, a, b, node)

    def to_text(self, v, node):
        if isinstance(v, (str, SStr)):
            return v
        if isinstance(v, Sym):
            return v if v.kind == "word" else Sym("str(%s)" % v.name, "word")
        if isinstance(v, Rat):
            a = single_atom(v)
            if a is not None and a in KIND:
                return SStr([Text(a)])
            if v.is_const():
                c = v.const_value()
                return str(int(c)) if c.denominator == 1 else repr(float(c))
        if isinstance(v, Obj):
            return Sym("str(%s)" % v.name, "word")
        if v is None or isinstance(v, bool):
            return str(v)
        # the display text of any other value (an array, a tuple, an expression: what a message shows): a text of its own
        from .symeval import vkey as _vkey
        try:
            k_ = _vkey(v)
        except Exception:
            k_ = type(v).__name__
        return Sym("str(%s)" % k_[:80], "text")

    def format_percent(self, fmt, vals, node):
        parts, i, k = [], 0, 0
        while i < len(fmt):
            c = fmt[i]
            if c == "%" and i + 1 < len(fmt):
                d = fmt[i + 1]
                if d == "%":
                    parts.append("%")
                elif d in "sdri":
                    if k >= len(vals):
                        raise PyRaise("TypeError", node, "not enough arguments for format string")
                    parts.append(self.to_text(vals[k], node))
                    k += 1
                else:
                    raise AnalysisError("E7: format directive %%%s (line %d)" % (d, getattr(node, "lineno", 0)))
                i += 2
                continue
            parts.append(c)
            i += 1
        if k != len(vals):
            raise PyRaise("TypeError", node, "not all arguments converted during string formatting")
        return SStr(parts).simplify()

    def compare(self, op, a, b, node):
        if isinstance(a, Rat) and isinstance(b, Rat) and not (a - b).is_const() and set((a - b).atoms()) <= POSITIVE:
            # c0 + sum c_i * len_i with len_i >= 1: decided when every coefficient has the sign of the bound
            d = a - b
            from .poly import mono_items
            lo = Fraction(0)
            coefs = []
            ok = p_is_const_den(d)
            if ok:
                for m_, c_ in d.num.items():
                    items = mono_items(m_)
                    if not items:
                        lo += Fraction(c_)
                    elif len(items) == 1 and items[0][1] == 1:
                        coefs.append(Fraction(c_))
                    else:
                        ok = False
            if ok and coefs and all(c_ > 0 for c_ in coefs) and lo + sum(coefs) > 0:
                a, b = Rat.const(1), Rat.const(0)
            elif ok and coefs and all(c_ < 0 for c_ in coefs) and lo + sum(coefs) < 0:
                a, b = Rat.const(-1), Rat.const(0)
        if isinstance(op, (ast.Eq, ast.NotEq)) and isinstance(a, Rat) and isinstance(b, Rat):
            # int == float(int): Python compares the exact values, so it holds iff the int is exactly representable
            for x_, y_ in ((a, b), (b, a)):
                ax_ = single_atom(x_)
                if ax_ in KIND and KIND[ax_] in INTKINDS and y_.equals(func_atom("float", x_)):
                    r = KIND[ax_] == "int"
                    return r if isinstance(op, ast.Eq) else not r

        def type_name(t_):
            return t_[1] if isinstance(t_, tuple) and len(t_) == 2 and t_[0] in ("builtin", "type", "typeobj") and isinstance(t_[1], str) \
                and t_[1] in ("str", "int", "float", "bool", "list", "tuple", "dict", "NoneType", "object", "other") else None
        if isinstance(op, (ast.Eq, ast.NotEq, ast.Is, ast.IsNot)) and type_name(a) is not None and type_name(b) is not None:
            # type(x) == str, type(x) is float, type(x) == type("")
            r = type_name(a) == type_name(b)
            return r if isinstance(op, (ast.Eq, ast.Is)) else not r
        if isinstance(op, (ast.Eq, ast.NotEq)) and (isinstance(a, (Sym, SStr, Obj)) or isinstance(b, (Sym, SStr, Obj))):
            r = okey(a) == okey(b)
            if not r and (isinstance(a, Sym) or isinstance(b, Sym)) and isinstance(a, (Sym, str, SStr)) and isinstance(b, (Sym, str, SStr)):
                raise AnalysisError("E7: comparison of an unknown word with a string (line %d)" % node.lineno)
            return r if isinstance(op, ast.Eq) else not r
        if isinstance(op, (ast.In, ast.NotIn)) and isinstance(b, (list, tuple, dict)) and isinstance(a, str):
            r = a in list(b)
            return r if isinstance(op, ast.In) else not r
        if isinstance(op, (ast.In, ast.NotIn)) and isinstance(b, (dict, list, tuple)) and isinstance(a, (Sym, SStr)) \
                and all(isinstance(k_, str) for k_ in b):
            self.__dict__.setdefault("literals_met", []).extend(k_ for k_ in b if k_ not in self.__dict__.get("literals_met", []))
            return isinstance(op, ast.NotIn)          # the generic text is none of the listed constants (see method_call)
        if isinstance(op, (ast.In, ast.NotIn)) and isinstance(b, dict) and isinstance(a, Rat) and not a.is_const() and self.numeric_table_lookup(b, a):
            return isinstance(op, ast.NotIn)
        if isinstance(op, (ast.In, ast.NotIn)) and isinstance(b, dict):
            k = dict_key(a)
            try:
                hash(k)
            except TypeError:
                raise AnalysisError("E7: membership test with a non-constant key (line %d)" % node.lineno)
            if isinstance(k, Rat) or (isinstance(k, tuple) and any(isinstance(x, (Rat, Opaque, Arr)) for x in k)):
                raise AnalysisError("E7: membership test with a non-constant key (line %d)" % node.lineno)
            r = k in b
            return r if isinstance(op, ast.In) else not r
        if isinstance(op, (ast.In, ast.NotIn)) and isinstance(b, (str,)) and isinstance(a, str):
            r = a in b
            return r if isinstance(op, ast.In) else not r
        if isinstance(op, (ast.Is, ast.IsNot)) and (isinstance(a, (Obj, Sym, SStr, dict, list)) or isinstance(b, (Obj, Sym, SStr, dict, list))):
            r = a is b
            return r if isinstance(op, ast.Is) else not r
        return Evaluator.compare(self, op, a, b, node)

    def decide(self, test, env):
        if self.branch_policy is not None:
            r = self.branch_policy(test, self, env)
            if r is not None:
                return bool(r)
        v = self.eval(test, env)
        if isinstance(v, (list, dict, str, tuple)):
            return bool(v)
        if isinstance(v, (Obj, Sym, SStr)):
            return True
        if isinstance(v, bool) or v is None or (isinstance(v, Rat) and v.is_const()):
            return bool(v) if not isinstance(v, Rat) else v.const_value() != 0
        if isinstance(v, Rat) and getattr(self, "number_truth_policy", None) is not None:
            t_ = self.number_truth_policy(v, test)
            if t_ is not None:
                return bool(t_)
        raise AnalysisError("E7: branch `%s` does not fold (line %d)" % (unparse(test)[:60], test.lineno))

    def e_BoolOp(self, node, env):
        is_and = isinstance(node.op, ast.And)
        r = None
        for v in node.values:
            r = self.eval(v, env)
            truth = r if isinstance(r, bool) else (bool(r) if isinstance(r, (list, dict, str, tuple)) or r is None else
                                                   True if isinstance(r, (Obj, Sym, SStr)) else
                                                   (r.const_value() != 0) if isinstance(r, Rat) and r.is_const() else None)
            if truth is None and isinstance(r, Rat) and getattr(self, "number_truth_policy", None) is not None:
                # the truth value of a number: zero / non-zero -- a case distinction the rule makes (it answers for the class it
                # is running and runs the other class too)
                truth = self.number_truth_policy(r, node)
            if truth is None:
                raise AnalysisError("E7: boolean operand does not fold (line %d)" % node.lineno)
            if is_and and not truth:
                return r
            if not is_and and truth:
                return r
        return r

    def e_UnaryOp(self, node, env):
        if isinstance(node.op, ast.Not):
            v = self.eval(node.operand, env)
            if isinstance(v, (list, dict, str, tuple)) or v is None:
                return not v
            if isinstance(v, (Obj, Sym, SStr)):
                return False
            if isinstance(v, bool):
                return not v
            if isinstance(v, Rat) and v.is_const():
                return v.const_value() == 0
            raise AnalysisError("E7: `not` of a symbolic value (line %d)" % node.lineno)
        return Evaluator.e_UnaryOp(self, node, env)

    # -------------------------------------------------------------- builtins and methods
    def type_of(self, v):
        if isinstance(v, bool):
            return "bool"
        if v is None:
            return "NoneType"
        if isinstance(v, (str, SStr)) or (isinstance(v, Sym) and v.kind == "word"):
            return "str"
        if isinstance(v, Rat):
            a = single_atom(v)
            if a in KIND:
                return "int" if KIND[a] in INTKINDS else KIND[a]
            if a is not None and a.startswith("float("):
                return "float"
            if v.is_const():
                return "int" if v.const_value().denominator == 1 and not getattr(v, "from_float", False) else "float"
            return "float"
        if isinstance(v, dict):
            return "dict"
        if isinstance(v, list):
            return "list"
        from .symeval import is_tagged
        if is_tagged(v):
            return "other"            # a function, class, module, pattern ... value (represented by a tagged tuple)
        if isinstance(v, tuple):
            return "tuple"
        return "other"

    def convert(self, which, v, node):
        """float(v) / int(v)"""
        if isinstance(v, Rat):
            a = single_atom(v)
            if which == "float":
                return func_atom("float", v) if a in KIND and KIND[a] in INTKINDS else v
            if a in KIND and KIND[a] in INTKINDS:
                return v
            if v.is_const():
                return Rat.const(int(v.const_value()))
            return func_atom("int", v)
        if isinstance(v, bool):
            return Rat.const(int(v))
        if isinstance(v, str):
            try:
                return Rat.const(Fraction(repr(float(v)))) if which == "float" else Rat.const(int(v))
            except (ValueError, OverflowError):
                raise PyRaise("ValueError", node, "%s(%r)" % (which, v))
        if isinstance(v, Sym):
            if v.name.startswith("partial("):
                return Rat.atom(v.name)          # a number cut out of the wrong columns: some other number
            if v.kind == "word":
                raise PyRaise("ValueError", node, "%s of a word" % which)
            raise PyRaise("TypeError", node, "%s of an object" % which)
        if isinstance(v, SStr):
            core_parts = [p for p in v.parts if not (isinstance(p, str) and not p.strip())]
            if len(core_parts) == 1 and isinstance(core_parts[0], Field):
                core_parts = [Text(core_parts[0].atom)]
            if len(core_parts) == 1 and isinstance(core_parts[0], Sym) and core_parts[0].name.startswith("partial("):
                return Rat.atom(core_parts[0].name)
            if len(core_parts) == 1 and isinstance(core_parts[0], Text):
                a = core_parts[0].atom
                if which == "float":
                    return Rat.atom(a) if KIND[a] == "float" else func_atom("float", Rat.atom(a))
                if KIND[a] in INTKINDS:
                    return Rat.atom(a)
                raise PyRaise("ValueError", node, "int of the text of a float")
            raise PyRaise("ValueError", node, "%s of text %s" % (which, v.key()))
        if v is None or isinstance(v, (list, dict, tuple, Obj)):
            raise PyRaise("TypeError", node, "%s of %s" % (which, type(v).__name__))
        raise AnalysisError("E7: %s(%r) (line %d)" % (which, v, node.lineno))

    def builtin(self, name, args, kwargs, node):
        if name == "property" and len(args) == 1 and not kwargs:
            return ("propertyobj", args[0])
        if name == "globals" and not args and not kwargs:
            from .symeval import ModNS
            return ModNS(self)
        if name == "hash" and len(args) == 1 and not kwargs:
            def hashable(v_):
                from .symeval import is_tagged as _tg
                if isinstance(v_, (list, dict, set, Arr, Opaque)) :
                    return False
                if isinstance(v_, tuple) and not _tg(v_):
                    return all(hashable(x_) for x_ in v_)
                return True
            if not hashable(args[0]):
                raise PyRaise("TypeError", node, "unhashable type")
            return Opaque("hash(%s)" % vkey(args[0]))
        if name == "slice" and 1 <= len(args) <= 3 and not kwargs:
            ints = [None if a_ is None else const_int(a_) for a_ in args]
            if any(i_ is None and a_ is not None for i_, a_ in zip(ints, args)):
                raise AnalysisError("E7: slice() with bounds that are not constant (line %d)" % node.lineno)
            return slice(*ints)
        if name == "object" and not args and not kwargs:
            return self.new_obj("sentinel")           # a fresh object: equal only to itself
        if name in ("float", "int") and len(args) == 1:
            r = self.convert(name, args[0], node)
            if name == "int" and isinstance(args[0], Rat) and args[0].is_const() and isinstance(node, ast.Call) \
                    and isinstance(node.func, ast.Name) and node.func.id == "int" and len(node.args) == 1:
                # exact folding truncates the exact value; the code truncates the binary one (xfabsa/floatshadow.py)
                from . import floatshadow
                t = floatshadow.truncation(self, node.args[0], getattr(self, "_call_env", {}), Fraction(args[0].const_value()))
                if t is not None and isinstance(r, Rat) and r.is_const() and t != r.const_value():
                    self.__dict__.setdefault("float_notes", []).append((node.lineno, unparse(node)[:80], r.const_value(), t))
                    return Rat.const(t)
            return r
        if name == "str" and len(args) == 1:
            t = self.to_text(args[0], node)
            return t.simplify() if isinstance(t, SStr) else t
        if name == "repr" and len(args) == 1:
            t = self.to_text(args[0], node)
            return t.simplify() if isinstance(t, SStr) else t
        if name == "type" and len(args) == 1:
            return ("typeobj", self.type_of(args[0]))
        if name == "isinstance" and len(args) == 2 and not isinstance(args[0], (Sym, SStr, Obj)):
            r_ = self.isinstance_test(args[0], args[1], node)
            if r_ is not NotImplemented:
                return r_
        if name == "isinstance" and len(args) == 2:
            is_type = lambda t_: isinstance(t_, tuple) and len(t_) == 2 and t_[0] in ("builtin", "type", "typeobj") and isinstance(t_[1], str)
            types = (args[1],) if is_type(args[1]) else (args[1] if isinstance(args[1], tuple) else (args[1],))
            names = set()
            for t in types:
                if isinstance(t, tuple) and len(t) == 2 and t[0] in ("builtin", "type", "typeobj"):
                    names.add(t[1])
                else:
                    raise AnalysisError("E7: isinstance against %r (line %d)" % (t, node.lineno))
            k = self.type_of(args[0])
            return k in names or (k == "bool" and "int" in names)
        if name in ("hasattr", "getattr") and len(args) >= 2 and isinstance(args[0], tuple) and len(args[0]) == 2 \
                and args[0][0] == "import" and isinstance(args[1], str):
            dotted = args[0][1] + "." + args[1]
            exists = self.import_exists(dotted)
            if name == "hasattr":
                return exists
            if exists:
                v = self.resolve_import(dotted)
                return v if v is not None else ("import", dotted)
            if len(args) == 3:
                return args[2]
            raise PyRaise("AttributeError", node, dotted)
        if name == "hasattr" and len(args) == 2 and isinstance(args[0], Obj) and isinstance(args[1], str):
            return args[1] in args[0].attrs or self.find_method(args[0], args[1]) is not None
        if name == "getattr" and len(args) in (2, 3) and isinstance(args[0], Obj) and isinstance(args[1], str):
            if args[1] in args[0].attrs:
                return args[0].attrs[args[1]]
            if len(args) == 3:
                return args[2]
            raise PyRaise("AttributeError", node, args[1])
        if name == "setattr" and len(args) == 3 and isinstance(args[0], Obj) and isinstance(args[1], str):
            args[0].attrs[args[1]] = args[2]
            args[0].stores.append((args[1], args[2]))
            return None
        if name == "open":
            if self.open_policy is None:
                raise AnalysisError("E7: open() without a file model (line %d)" % node.lineno)
            mode = args[1] if len(args) > 1 else kwargs.get("mode", "r")
            return self.open_policy(args[0], mode, node)
        if name == "len" and args and isinstance(args[0], (dict, str)):
            return Rat.const(len(args[0]))
        if name == "len" and args and isinstance(args[0], (SStr, Sym)):
            parts = args[0].parts if isinstance(args[0], SStr) else [args[0]]
            tot = Rat.const(0)
            for p_ in parts:
                if isinstance(p_, str):
                    tot = tot + len(p_)
                else:
                    a_ = "len(%s)" % p_.key()
                    POSITIVE.add(a_)           # a word / the text of a number has at least one character
                    tot = tot + Rat.atom(a_)
            return tot
        if name in ("list", "tuple", "sorted", "set") and args and isinstance(args[0], dict):
            ks = list(args[0])
            if name == "sorted":
                ks = sorted(ks)
            return tuple(ks) if name == "tuple" else ks
        if name == "print":
            return None
        return Evaluator.builtin(self, name, args, kwargs, node)

    def numeric_table_lookup(self, table, key):
        """a symbolic number looked up in a table whose keys are numeric constants: the generic number is not a key (the
        caller answers `missing`); the keys are its special values, recorded in NUMERIC_CASES for the rule to replay"""
        from fractions import Fraction
        if not table or not all(isinstance(k_, (int, Fraction)) and not isinstance(k_, bool) for k_ in table):
            return False
        rec = (key.key(), tuple(sorted(table)))
        if rec not in NUMERIC_CASES:
            NUMERIC_CASES.append(rec)
        return True

    def method_call(self, base, attr, args, kwargs, node):
        from .symeval import NTuple
        if isinstance(base, dict) and attr in ("get", "__contains__") and args and isinstance(args[0], Rat) and not args[0].is_const() \
                and self.numeric_table_lookup(base, args[0]):
            return False if attr == "__contains__" else (args[1] if len(args) == 2 else None)
        if isinstance(base, NTuple):
            if attr == "_replace" and not args:
                vals = list(base)
                for k_, v_ in kwargs.items():
                    if k_ not in base.nt_fields:
                        raise PyRaise("ValueError", node, "unexpected field %s" % k_)
                    vals[base.nt_fields.index(k_)] = v_
                return NTuple(base.nt_name, base.nt_fields, vals, klass=getattr(base, "cls", None))
            if attr == "_asdict" and not args and not kwargs:
                return dict(zip(base.nt_fields, base))
            if attr in ("index", "count") and len(args) == 1:
                ks = [okey(x_) for x_ in base]
                if attr == "count":
                    return Rat.const(ks.count(okey(args[0])))
                if okey(args[0]) not in ks:
                    raise PyRaise("ValueError", node, "not in tuple")
                return Rat.const(ks.index(okey(args[0])))
        if isinstance(base, dict) and attr in ("get", "pop", "setdefault", "__contains__") and args and isinstance(args[0], (Sym, SStr)):
            # a look-up of an unknown text among constant keys: the generic text is none of them (the answer given here); the
            # keys are the special values of that text -- recorded, so that the rule can add one scenario per key
            keys = [k_ for k_ in base if isinstance(k_, str)]
            self.__dict__.setdefault("literals_met", []).extend(k_ for k_ in keys if k_ not in self.__dict__["literals_met"])
            if attr == "__contains__":
                return False
            if attr == "get":
                return args[1] if len(args) == 2 else None
            if attr == "pop":
                if len(args) == 2:
                    return args[1]
                raise PyRaise("KeyError", node, okey(args[0]))
            raise AnalysisError("E7: setdefault with a key that is not constant (line %d)" % node.lineno)
        if isinstance(base, dict):
            if attr == "update" and len(args) <= 1:
                if args:
                    src = args[0]
                    if isinstance(src, dict):
                        base.update(src)
                    elif isinstance(src, (list, tuple)):
                        for kv in src:
                            if not isinstance(kv, (list, tuple)) or len(kv) != 2:
                                raise PyRaise("ValueError", node, "update with a non-pair")
                            base[dict_key(kv[0])] = kv[1]
                    else:
                        raise AnalysisError("E7: dict.update(%r) (line %d)" % (src, node.lineno))
                base.update(kwargs)
                return None
            if attr == "pop" and args:
                k = dict_key(args[0])
                if k in base:
                    return base.pop(k)
                if len(args) == 2:
                    return args[1]
                raise PyRaise("KeyError", node, repr(k))
            if attr == "setdefault" and len(args) == 2:
                return base.setdefault(dict_key(args[0]), args[1])
            if attr == "copy" and not args:
                return dict(base)
            if attr == "clear" and not args:
                base.clear()
                return None
            if attr == "__contains__" and len(args) == 1:
                return dict_key(args[0]) in base
        if isinstance(base, (list, Arr)) and attr in ("all", "any") and not args:
            return Evaluator.method_call(self, base, attr, args, kwargs, node)
        if isinstance(base, list):
            if attr == "sort" and not args:
                if kwargs:
                    raise AnalysisError("E7: list.sort with arguments (line %d)" % node.lineno)
                if not all(isinstance(x, str) for x in base):
                    raise AnalysisError("E7: sort of non-constant items (line %d)" % node.lineno)
                base.sort()
                return None
            if attr == "append" and len(args) == 1:
                base.append(args[0])
                return None
            if attr == "extend" and len(args) == 1 and isinstance(args[0], (list, tuple)):
                base.extend(args[0])
                return None
            if attr == "index" and len(args) == 1:
                for i, x in enumerate(base):
                    if okey(x) == okey(args[0]):
                        return Rat.const(i)
                raise PyRaise("ValueError", node, "not in list")
            if attr == "remove" and len(args) == 1:
                for i, x in enumerate(base):
                    if okey(x) == okey(args[0]):
                        del base[i]
                        return None
                raise PyRaise("ValueError", node, "not in list")
            if attr == "copy" and not args:
                return list(base)
        if isinstance(base, (str, SStr, Sym)):
            s = base if isinstance(base, SStr) else SStr([base])
            if attr in ("strip", "lstrip", "rstrip") and not args:
                parts = list(s.parts)
                if attr in ("strip", "lstrip") and parts and isinstance(parts[0], str):
                    parts[0] = parts[0].lstrip()
                if attr in ("strip", "rstrip") and parts and isinstance(parts[-1], str):
                    parts[-1] = parts[-1].rstrip()
                return SStr(parts).simplify()
            if attr == "split" and len(args) <= 2:
                sep = args[0] if args else None
                maxsplit = const_int(args[1]) if len(args) == 2 else -1
                if sep is not None and not isinstance(sep, str):
                    raise AnalysisError("E7: split at a non-constant (line %d)" % node.lineno)
                pieces, cur = [], []
                n_done = 0
                for p in s.parts:
                    if not isinstance(p, str):
                        cur.append(p)
                        continue
                    if sep is None:
                        # any white space, runs collapse: model on the literal text
                        toks, buf = [], ""
                        for ch in p:
                            if ch.isspace():
                                toks.append(buf); toks.append(None); buf = ""
                            else:
                                buf += ch
                        toks.append(buf)
                        for t in toks:
                            if t is None:
                                if cur:
                                    pieces.append(cur); cur = []
                            elif t:
                                cur.append(t)
                        continue
                    chunks = p.split(sep)
                    for j, ch in enumerate(chunks):
                        if j > 0:
                            if 0 <= maxsplit <= n_done:
                                cur.append(sep)
                            else:
                                pieces.append(cur); cur = []; n_done += 1
                        cur.append(ch)
                if sep is None:
                    if cur:
                        pieces.append(cur)
                else:
                    pieces.append(cur)
                return [SStr(c).simplify() for c in pieces]
            if attr == "replace" and len(args) == 2 and all(isinstance(x, str) for x in args):
                return SStr([p.replace(args[0], args[1]) if isinstance(p, str) else p for p in s.parts]).simplify()
            if attr in ("partition", "rpartition") and len(args) == 1 and isinstance(args[0], str):
                sep = args[0]
                pos = None
                order = range(len(s.parts)) if attr == "partition" else range(len(s.parts) - 1, -1, -1)
                for k_ in order:
                    p_ = s.parts[k_]
                    if isinstance(p_, str) and sep in p_:
                        pos = k_
                        break
                if pos is None:
                    whole = s.simplify()
                    return (whole, "", "") if attr == "partition" else ("", "", whole)
                a_, _s, b_ = s.parts[pos].partition(sep) if attr == "partition" else s.parts[pos].rpartition(sep)
                return (SStr(s.parts[:pos] + [a_]).simplify(), sep, SStr([b_] + s.parts[pos + 1:]).simplify())
            if attr in ("startswith", "endswith") and len(args) == 1 and isinstance(args[0], tuple) and all(isinstance(x_, str) for x_ in args[0]):
                return any(self.method_call(base, attr, [x_], kwargs, node) for x_ in args[0])
            if attr in ("startswith", "endswith") and len(args) == 1 and isinstance(args[0], str):
                edge = s.parts[0] if attr == "startswith" else s.parts[-1] if s.parts else ""
                if isinstance(edge, (Field, Text)) or (isinstance(edge, Sym)):
                    # a number / word at the edge: the literal prefixes looked for are record tags and keywords, not numbers
                    if isinstance(edge, (Field, Text)):
                        return False
                if isinstance(edge, str) and len(edge) >= len(args[0]):
                    return getattr(edge, attr)(args[0])
                if isinstance(base, str):
                    return getattr(base, attr)(args[0])
                raise AnalysisError("E7: %s on symbolic text (line %d)" % (attr, node.lineno))
            if attr in ("lower", "upper") and isinstance(base, str):
                return getattr(base, attr)()
            if attr in ("lower", "upper") and isinstance(base, Sym) and base.kind == "word":
                return Sym("%s(%s)" % (attr, base.name), "word")
            if attr in ("find", "index") and len(args) == 1 and isinstance(args[0], str):
                r = s.find(args[0])
                if attr == "index" and r.is_const() and r.const_value() < 0:
                    raise PyRaise("ValueError", node, "substring not found")
                return r
            if attr == "count" and len(args) == 1 and isinstance(args[0], str):
                return Rat.const(sum(p.count(args[0]) for p in s.parts if isinstance(p, str)))
            if attr in ("isdigit", "isalpha", "isspace") and isinstance(base, str):
                return getattr(base, attr)()
            if attr == "join" and isinstance(base, str) and len(args) == 1 and isinstance(args[0], (list, tuple)):
                out = []
                for i, x in enumerate(args[0]):
                    if i:
                        out.append(base)
                    out.append(x if isinstance(x, (str, SStr, Sym)) else self.to_text(x, node))
                return SStr(out).simplify()
            if attr == "format" and isinstance(base, str):
                import string as _string
                out_, auto_ = [], 0
                try:
                    for lit_, field_, spec_, conv_ in _string.Formatter().parse(base):
                        if lit_:
                            out_.append(lit_)
                        if field_ is None:
                            continue
                        head_ = field_.split(".")[0].split("[")[0]
                        if head_ == "":
                            val_ = args[auto_]; auto_ += 1
                        elif head_.isdigit():
                            val_ = args[int(head_)]
                        else:
                            val_ = kwargs[head_]
                        if spec_ or conv_ or head_ != field_:
                            out_.append(Sym("format(%s)" % field_[:40], "text"))
                        else:
                            out_.append(self.to_text(val_, node))
                except (IndexError, KeyError, ValueError):
                    raise PyRaise("IndexError", node, "str.format: missing argument")
                return SStr(out_).simplify()
            if attr == "format":
                return Sym("format(...)", "text")
        if isinstance(base, tuple) and len(base) == 2 and base[0] == "regex":
            import re as _re
            if attr == "sub" and len(args) == 2 and isinstance(args[0], str):
                if isinstance(args[1], str):
                    return _re.sub(base[1], args[0], args[1])
                if isinstance(args[1], (SStr, Sym)):
                    s_ = args[1] if isinstance(args[1], SStr) else SStr([args[1]])
                    return SStr([_re.sub(base[1], args[0], p_) if isinstance(p_, str) else p_ for p_ in s_.parts]).simplify()
            if attr == "split" and len(args) == 1 and isinstance(args[0], str):
                return _re.split(base[1], args[0])
            if args and all(isinstance(a_, str) for a_ in args):
                return Evaluator.method_call(self, base, attr, args, kwargs, node)
            raise TextOpaque("E7: regular-expression method %s on text that is not constant (line %d)" % (attr, node.lineno))
        if isinstance(base, tuple) and len(base) == 2 and base[0] == "rematch":
            return Evaluator.method_call(self, base, attr, args, kwargs, node)
        r = Evaluator.method_call(self, base, attr, args, kwargs, node)
        if isinstance(base, (str, SStr, Sym, dict, list)) and isinstance(r, Opaque) and r.shape is None and (".%s(" % attr) in r.base:
            # the generic "unknown method" fallback: for text and containers that would be a silently wrong value
            raise AnalysisError("E7: method `%s` of a %s is not modelled (line %d)"
                                % (attr, "text" if isinstance(base, (str, SStr, Sym)) else type(base).__name__, node.lineno))
        return r

    def stdlib_call(self, name, args, kwargs, node):
        if name in ("logging.getLogger",) or name.endswith(".get_module_level_logger"):
            # a logger: every method records the call and returns None (messages are no part of any value)
            o = self.new_obj("logger")
            for lv_ in ("debug", "info", "warning", "warn", "error", "critical", "exception", "log", "setLevel", "addHandler", "isEnabledFor"):
                o.pymethods[lv_] = (lambda *a_, _lv=lv_, **k_: (self.log_calls.append((_lv, a_)), None)[1])
            return o
        if name == "warnings.warn":
            self.log_calls.append(("warnings.warn", tuple(args)))
            return None
        return Evaluator.stdlib_call(self, name, args, kwargs, node)

    def opaque_call(self, name, args, kwargs, node):
        if name == "re.compile" and args and isinstance(args[0], str):
            return ("regex", args[0])
        if name == "re.sub" and len(args) == 3 and isinstance(args[0], str) and isinstance(args[1], str) and isinstance(args[2], (SStr, Sym)):
            import re as _re
            s_ = args[2] if isinstance(args[2], SStr) else SStr([args[2]])
            return SStr([_re.sub(args[0], args[1], p_) if isinstance(p_, str) else p_ for p_ in s_.parts]).simplify()
        if getattr(self, "allow_opaque_calls", False) or name in getattr(self.mod, "functions", {}):
            return Evaluator.opaque_call(self, name, args, kwargs, node)
        if name.startswith("re.") and any(isinstance(a_, (SStr, Sym, Text, Field)) for a_ in args):
            raise TextOpaque("E7: `%s` looks at the characters of a text that is abstract here (line %d)" % (name, getattr(node, "lineno", 0)))
        raise AnalysisError("E7: call of `%s` is not modelled (line %d)" % (name, getattr(node, "lineno", 0)))


NUMERIC_CASES = []      # (key of the symbolic number, the tabulated constants it was looked up among)


class FullEvaluator(ObjEvaluator):
    """what `Evaluator(...)` constructs: the object-aware interpreter with E3's conventions"""

    def __init__(self, mod, **kw):
        ObjEvaluator.__init__(self, mod, **kw)
        self.check_asserts = False
        self.allow_opaque_calls = True


class FileSystem:
    """files as lists of lines; open(name, 'w') truncates, write() appends text, readlines()/iteration yield the lines"""

    def __init__(self, ev):
        self.ev = ev
        self.files = {}
        self.events = []
        ev.open_policy = self.open

    def open(self, filename, mode, node=None):
        name = filename if isinstance(filename, str) else okey(filename)
        mode = mode if isinstance(mode, str) else "r"
        o = self.ev.new_obj("file")
        self.events.append(("open", name, mode))
        if "w" in mode:
            self.files[name] = []
        elif "a" in mode:
            self.files.setdefault(name, [])
        elif name not in self.files:
            raise PyRaise("FileNotFoundError", node, name)
        buf = self.files[name]
        state = {"open": True}

        def write(text):
            if not state["open"] or "r" in mode:
                raise PyRaise("ValueError", node, "write to a closed / read-only file")
            # text is split into lines at literal newlines
            s = text if isinstance(text, SStr) else SStr([text])
            cur = buf.pop() if buf and not _ends_nl(buf[-1]) else None
            pend = [cur] if cur is not None else []
            for p in s.parts:
                if isinstance(p, str):
                    chunks = p.split("\n")
                    for j, ch in enumerate(chunks):
                        if j > 0:
                            pend.append("\n")
                            buf.append(SStr(pend).simplify())
                            pend = []
                        if ch:
                            pend.append(ch)
                else:
                    pend.append(p)
            if pend:
                buf.append(SStr(pend).simplify())
            return None

        def writelines(lines):
            if isinstance(lines, Obj) and "__iter__" in getattr(lines, "pymethods", {}):
                lines = lines.pymethods["__iter__"]()
            if not isinstance(lines, (list, tuple)):
                raise AnalysisError("E7: writelines of a value that is not a sequence")
            for ln_ in lines:
                write(ln_)
            return None

        def readlines():
            return list(buf)

        def read():
            return SStr(list(buf)).simplify()

        def close():
            state["open"] = False
            self.events.append(("close", name, mode))
            return None
        o.pymethods = {"write": write, "writelines": writelines, "readlines": readlines, "read": read, "close": close,
                       "__iter__": readlines, "flush": lambda: None}
        o.lines = buf
        return o


def _ends_nl(line):
    if isinstance(line, str):
        return line.endswith("\n")
    if isinstance(line, SStr):
        return bool(line.parts) and isinstance(line.parts[-1], str) and line.parts[-1].endswith("\n")
    return False
