"""
Shared-value mutation lint (escape / alias rule).

A function *returns a shared value* when it is memoised by a caching decorator
or returns (an entry of) a module-level mutable container.  A value obtained
from such a function -- or a slice view of it, or an entry of a module-level
container -- must not be mutated in place (element / slice store, augmented
assignment, in-place ndarray methods): the next caller would see the mutated
object.  numpy augmented assignment on an ndarray and slicing with `:` both
alias the original storage.
"""
from __future__ import annotations

import ast

from . import core

INPLACE_METHODS = {"sort", "fill", "resize", "itemset", "put", "partition", "setfield", "byteswap"}


def module_level_mutables(mod):
    out = set()
    for name, node in mod.assigns.items():
        v = node.value
        if isinstance(v, (ast.Dict, ast.List, ast.Set, ast.ListComp, ast.DictComp)) or \
                (isinstance(v, ast.Call) and isinstance(v.func, ast.Name) and v.func.id in ("dict", "list", "set", "defaultdict", "OrderedDict")) or \
                (isinstance(v, ast.BinOp) and isinstance(v.left, (ast.List, ast.ListComp))):
            out.add(name)
    return out


def shared_returning(mod):
    """function name -> reason it returns a shared object"""
    glob = module_level_mutables(mod)
    out = {}
    for name, fn in mod.functions.items():
        for d in fn.decorator_list:
            txt = core.unparse(d)
            if "cache" in txt or "memo" in txt:
                out[name] = "memoised by @%s" % txt
        for n in ast.walk(fn):
            if isinstance(n, ast.Return) and n.value is not None:
                v = n.value
                base = v
                while isinstance(base, ast.Subscript):
                    base = base.value
                if isinstance(base, ast.Name) and base.id in glob:
                    out.setdefault(name, "returns an entry of the module-level container `%s`" % base.id)
    # one level of wrapping: a function that returns the result of a shared-returning function unchanged
    changed = True
    while changed:
        changed = False
        for name, fn in mod.functions.items():
            if name in out:
                continue
            for n in ast.walk(fn):
                if isinstance(n, ast.Return) and isinstance(n.value, ast.Call) and isinstance(n.value.func, ast.Name) \
                        and n.value.func.id in out:
                    out[name] = "returns the shared result of %s()" % n.value.func.id
                    changed = True
    return out, glob


def _is_view_subscript(node):
    """a subscript that yields a view: contains a slice (numpy basic slicing)"""
    sl = node.slice
    parts = sl.elts if isinstance(sl, ast.Tuple) else [sl]
    return any(isinstance(p, ast.Slice) for p in parts)


def find_mutations(mod):
    """-> list of (function, node, description)"""
    shared, glob = shared_returning(mod)
    found = []
    for fname, fn in mod.functions.items():
        tracked = {}        # local name -> why shared

        def origin(expr):
            """why `expr` denotes shared storage, or None"""
            e = expr
            view = True
            while isinstance(e, ast.Subscript):
                if not _is_view_subscript(e) and not (isinstance(e.value, ast.Name) and e.value.id in glob):
                    # integer indexing of an ndarray of rank > 1 is still a view; of a container it is the stored object
                    pass
                e = e.value
            if isinstance(e, ast.Call) and isinstance(e.func, ast.Name) and e.func.id in shared:
                return "%s() %s" % (e.func.id, shared[e.func.id])
            if isinstance(e, ast.Name):
                if e.id in tracked:
                    return tracked[e.id]
                if e.id in glob and isinstance(expr, ast.Subscript):
                    return "an entry of the module-level container `%s`" % e.id
            return None
        for st in ast.walk(fn):
            if isinstance(st, ast.Assign) and len(st.targets) == 1 and isinstance(st.targets[0], ast.Name):
                why = origin(st.value) if isinstance(st.value, (ast.Call, ast.Subscript, ast.Name)) else None
                if why:
                    # scalar element of a 2-D view is a copy: only names bound to calls, names, slices or row indexing alias
                    v = st.value
                    if isinstance(v, ast.Subscript) and not _is_view_subscript(v) and isinstance(v.slice, ast.Tuple):
                        continue
                    tracked[st.targets[0].id] = why
        if not tracked and not any(isinstance(n, ast.Subscript) for n in ast.walk(fn)):
            continue
        for st in ast.walk(fn):
            if isinstance(st, ast.AugAssign):
                t = st.target
                base = t
                while isinstance(base, ast.Subscript):
                    base = base.value
                if isinstance(base, ast.Name) and base.id in tracked:
                    found.append((fname, st, "`%s` updates in place a value shared through %s" % (core.unparse(st)[:60], tracked[base.id])))
            elif isinstance(st, ast.Assign):
                for t in st.targets:
                    if isinstance(t, ast.Subscript):
                        base = t
                        while isinstance(base, ast.Subscript):
                            base = base.value
                        if isinstance(base, ast.Name) and base.id in tracked:
                            found.append((fname, st, "`%s` stores into a value shared through %s" % (core.unparse(st)[:60], tracked[base.id])))
            elif isinstance(st, ast.Call) and isinstance(st.func, ast.Attribute) and st.func.attr in INPLACE_METHODS \
                    and isinstance(st.func.value, ast.Name) and st.func.value.id in tracked:
                found.append((fname, st, "`%s` mutates in place a value shared through %s" % (core.unparse(st)[:60], tracked[st.func.value.id])))
    return found, shared


NO_COPY_CALLS = {"asarray", "asanyarray", "ascontiguousarray", "asfortranarray", "asfarray", "atleast_1d", "atleast_2d", "atleast_3d",
                 "squeeze", "ravel", "reshape", "transpose", "swapaxes", "real", "imag", "diagonal"}
VIEW_ATTRS = {"T", "real", "imag", "flat"}
VIEW_METHODS = {"reshape", "ravel", "view", "squeeze", "transpose", "swapaxes", "diagonal"}
CONTAINER_MUTATORS = INPLACE_METHODS | {"append", "extend", "insert", "pop", "remove", "clear", "reverse", "update", "setdefault", "popitem"}


def find_argument_mutations(mod):
    """in-place changes of a caller's argument: a store into / augmented assignment of / in-place method on a parameter or on a
    value that may share its memory (asarray & co. do not copy an array that already has the requested type; slices, .T,
    reshape, ravel are views).  A bare parameter that is augmented (`p *= 2`) counts only when the function also treats it as
    a sequence (subscripts it, takes its len / shape, hands it to asarray): for a number that statement rebinds a local name.
    -> [(function name, node, description)]"""
    found = []

    def functions():
        for name, fn in mod.functions.items():
            yield name, fn, False
        for cname, cls in getattr(mod, "classes", {}).items():
            for node in cls.body:
                if isinstance(node, ast.FunctionDef):
                    yield "%s.%s" % (cname, node.name), node, True
    for fname, fn, is_method in functions():
        a = fn.args
        params = [x.arg for x in list(getattr(a, "posonlyargs", [])) + list(a.args) + list(a.kwonlyargs)]
        if is_method and params and not any(isinstance(d, ast.Name) and d.id == "staticmethod" for d in fn.decorator_list):
            params = params[1:]
        if not params:
            continue
        np_alias = getattr(mod, "np_alias", {"n", "np", "numpy"})
        tracked = {p: (p, "param") for p in params}       # name -> (parameter, how it is known to be an array)
        seq_evidence = set()
        for n_ in ast.walk(fn):
            if isinstance(n_, ast.Subscript) and isinstance(n_.value, ast.Name) and n_.value.id in params:
                seq_evidence.add(n_.value.id)
            if isinstance(n_, ast.Call):
                f_ = n_.func
                if isinstance(f_, ast.Name) and f_.id == "len" and n_.args and isinstance(n_.args[0], ast.Name) and n_.args[0].id in params:
                    seq_evidence.add(n_.args[0].id)
                if isinstance(f_, ast.Attribute) and isinstance(f_.value, ast.Name) and f_.value.id in np_alias and f_.attr in NO_COPY_CALLS | {"array", "dot"} \
                        and n_.args and isinstance(n_.args[0], ast.Name) and n_.args[0].id in params:
                    seq_evidence.add(n_.args[0].id)
            if isinstance(n_, ast.Attribute) and isinstance(n_.value, ast.Name) and n_.value.id in params and n_.attr in ("shape", "T", "ndim", "dtype", "size"):
                seq_evidence.add(n_.value.id)

        def alias_of(e):
            """(parameter, kind) when the value of e may share memory with a parameter"""
            if isinstance(e, ast.Name):
                return tracked.get(e.id)
            if isinstance(e, ast.Call):
                f_ = e.func
                if isinstance(f_, ast.Attribute) and isinstance(f_.value, ast.Name) and f_.value.id in np_alias:
                    if f_.attr in NO_COPY_CALLS and e.args:
                        src = alias_of(e.args[0])
                        return (src[0], "array") if src else None
                    if f_.attr == "array" and e.args and any(k.arg == "copy" and isinstance(k.value, ast.Constant) and k.value.value is False for k in e.keywords):
                        src = alias_of(e.args[0])
                        return (src[0], "array") if src else None
                    return None
                if isinstance(f_, ast.Attribute) and f_.attr in VIEW_METHODS:
                    src = alias_of(f_.value)
                    return (src[0], "array") if src else None
                return None
            if isinstance(e, ast.Attribute) and e.attr in VIEW_ATTRS:
                src = alias_of(e.value)
                return (src[0], "array") if src else None
            if isinstance(e, ast.Subscript) and _is_view_subscript(e):
                src = alias_of(e.value)
                return (src[0], "array") if src else None
            return None

        def is_array(name):
            par, kind = tracked[name]
            return kind == "array" or par in seq_evidence

        def visit(stmts, top):
            for st in stmts:
                # mutation sites first (the statement may also rebind)
                for n_ in ([st] if isinstance(st, (ast.Assign, ast.AugAssign, ast.Delete, ast.Expr)) else []):
                    targets = n_.targets if isinstance(n_, (ast.Assign, ast.Delete)) else [n_.target] if isinstance(n_, ast.AugAssign) else []
                    for t in targets:
                        base = t
                        while isinstance(base, (ast.Subscript, ast.Attribute)) and not (isinstance(base, ast.Attribute) and base.attr not in VIEW_ATTRS):
                            base = base.value
                        if isinstance(t, ast.Subscript) and isinstance(base, ast.Name) and base.id in tracked:
                            found.append((fname, n_, "`%s` stores into the caller's argument `%s`%s" % (
                                core.unparse(n_)[:60], tracked[base.id][0], "" if base.id == tracked[base.id][0] else " (through `%s`, which may share its memory)" % base.id)))
                        elif isinstance(n_, ast.AugAssign) and isinstance(t, ast.Name) and t.id in tracked and is_array(t.id):
                            found.append((fname, n_, "`%s` updates the caller's argument `%s` in place%s" % (
                                core.unparse(n_)[:60], tracked[t.id][0], "" if t.id == tracked[t.id][0] else " (`%s` may share its memory: asarray / a view does not copy)" % t.id)))
                for n_ in ast.walk(st) if not isinstance(st, (ast.FunctionDef, ast.ClassDef)) else []:
                    if isinstance(n_, ast.Call):
                        f_ = n_.func
                        if isinstance(f_, ast.Attribute) and f_.attr == "partition" and n_.args and isinstance(n_.args[0], ast.Constant) \
                                and isinstance(n_.args[0].value, str):
                            continue            # str.partition(separator) returns a tuple; ndarray.partition(kth) sorts in place
                        if isinstance(f_, ast.Attribute) and f_.attr in CONTAINER_MUTATORS and isinstance(f_.value, ast.Name) and f_.value.id in tracked \
                                and (f_.attr in INPLACE_METHODS or tracked[f_.value.id][0] in seq_evidence or tracked[f_.value.id][1] == "array"):
                            found.append((fname, n_, "`%s` changes the caller's argument `%s` in place" % (core.unparse(n_)[:60], tracked[f_.value.id][0])))
                        for k in n_.keywords:
                            if k.arg == "out" and isinstance(k.value, ast.Name) and k.value.id in tracked:
                                found.append((fname, n_, "`%s` writes its result into the caller's argument `%s`" % (core.unparse(n_)[:60], tracked[k.value.id][0])))
                # bindings
                if isinstance(st, ast.Assign) and len(st.targets) == 1 and isinstance(st.targets[0], ast.Name):
                    src = alias_of(st.value)
                    nm = st.targets[0].id
                    if src:
                        tracked[nm] = src
                    elif top and nm in tracked:
                        del tracked[nm]            # rebound to a fresh value in straight-line code
                elif isinstance(st, (ast.Assign,)) and len(st.targets) == 1 and isinstance(st.targets[0], (ast.Tuple, ast.List)) \
                        and isinstance(st.value, (ast.Tuple, ast.List)) and len(st.value.elts) == len(st.targets[0].elts):
                    for t_, v_ in zip(st.targets[0].elts, st.value.elts):
                        if isinstance(t_, ast.Name):
                            src = alias_of(v_)
                            if src:
                                tracked[t_.id] = src
                            elif top and t_.id in tracked:
                                del tracked[t_.id]
                for field in ("body", "orelse", "finalbody"):
                    sub = getattr(st, field, None)
                    if isinstance(sub, list) and sub and isinstance(sub[0], ast.stmt) and not isinstance(st, (ast.FunctionDef, ast.ClassDef)):
                        visit(sub, False)
                for h in getattr(st, "handlers", []) or []:
                    visit(h.body, False)
        visit(fn.body, True)
    return found


def check_arguments(ctx, pid, mod, functions=None):
    """rule `argmut`: an API function does not change its caller's arguments"""
    ctx.rule("argmut", "no in-place change of a caller's argument (stores, augmented assignment, in-place methods on a parameter or on an array that may share its memory)")
    n = 0
    for fname, node, why in find_argument_mutations(mod):
        if functions is not None and fname.split(".")[-1] not in functions and fname not in functions:
            continue
        n += 1
        ctx.fail("%s:argmut:%s:%s" % (pid, mod.rel, fname), why + ": the caller's data is different after the call, so a second use of the same array gives another result", core.loc(mod, node))
    if not n:
        ctx.ok("%s:argmut:%s" % (pid, mod.rel), sample={"module": mod.rel})
    return n


def check(ctx, pid, mod, functions=None):
    """rule `alias`: no in-place mutation of shared values in the module (optionally only in the named functions
    and whatever they call)"""
    found, shared = find_mutations(mod)
    ctx.rule("alias", "no in-place mutation of a value shared through a cache / module-level container")
    n = 0
    for fname, node, why in found:
        if functions is not None and fname not in functions:
            continue
        n += 1
        ctx.fail("%s:alias:%s:%s" % (pid, mod.rel, fname), why, core.loc(mod, node))
    if not n:
        ctx.ok("%s:alias:%s" % (pid, mod.rel), sample={"module": mod.rel, "shared_returning_functions": sorted(shared)})
    return n


def selfcheck():
    """the zero-count rule keeps a positive example that must match on every run"""
    import os
    p = os.path.join(core.VERIF, "selftest", "positive", "alias_shared_mutation.py")
    if not os.path.exists(p):
        raise core.AnalysisError("positive example selftest/positive/alias_shared_mutation.py is missing")

    class _M:
        pass
    m = _M()
    m.rel = "selftest/positive/alias_shared_mutation.py"
    src = open(p).read()
    m.tree = ast.parse(src)
    m.functions = {n.name: n for n in m.tree.body if isinstance(n, ast.FunctionDef)}
    m.assigns = {n.targets[0].id: n for n in m.tree.body if isinstance(n, ast.Assign) and isinstance(n.targets[0], ast.Name)}
    found, _ = find_mutations(m)
    if len(found) != 3:
        raise core.AnalysisError("positive example: the alias rule matched %d of 3 planted sites" % len(found))
    p = os.path.join(core.VERIF, "selftest", "positive", "argument_mutation.py")
    if not os.path.exists(p):
        raise core.AnalysisError("positive example selftest/positive/argument_mutation.py is missing")
    m = _M()
    m.rel = "selftest/positive/argument_mutation.py"
    m.tree = ast.parse(open(p).read())
    m.functions = {n.name: n for n in m.tree.body if isinstance(n, ast.FunctionDef)}
    m.classes = {}
    m.np_alias = {"n"}
    hits = sorted(f for f, _n, _w in find_argument_mutations(m))
    if hits != ["planted1", "planted2", "planted3", "planted4"]:
        raise core.AnalysisError("positive example: the argument-mutation rule matched %s, not the four planted sites" % hits)
