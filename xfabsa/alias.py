"""
Shared-value mutation lint (escape / alias rule).

A function *returns a shared value* when it is memoised by a caching decorator
or returns (an entry of) a module-level mutable container.  A value obtained
from such a function -- or a slice view of it, or an entry of a module-level
container -- must not be mutated in place (element / slice store, augmented
assignment, in-place ndarray methods): the next caller would see the mutated
object.  numpy augmented assignment on an ndarray and slicing with `:` both
alias the original storage.
"""
from __future__ import annotations

import ast

from . import core

INPLACE_METHODS = {"sort", "fill", "resize", "itemset", "put", "partition", "setfield", "byteswap"}


def module_level_mutables(mod):
    out = set()
    for name, node in mod.assigns.items():
        v = node.value
        if isinstance(v, (ast.Dict, ast.List, ast.Set, ast.ListComp, ast.DictComp)) or \
                (isinstance(v, ast.Call) and isinstance(v.func, ast.Name) and v.func.id in ("dict", "list", "set", "defaultdict", "OrderedDict")) or \
                (isinstance(v, ast.BinOp) and isinstance(v.left, (ast.List, ast.ListComp))):
            out.add(name)
    return out


def shared_returning(mod):
    """function name -> reason it returns a shared object"""
    glob = module_level_mutables(mod)
    out = {}
    for name, fn in mod.functions.items():
        for d in fn.decorator_list:
            txt = core.unparse(d)
            if "cache" in txt or "memo" in txt:
                out[name] = "memoised by @%s" % txt
        for n in ast.walk(fn):
            if isinstance(n, ast.Return) and n.value is not None:
                v = n.value
                base = v
                while isinstance(base, ast.Subscript):
                    base = base.value
                if isinstance(base, ast.Name) and base.id in glob:
                    out.setdefault(name, "returns an entry of the module-level container `%s`" % base.id)
    # one level of wrapping: a function that returns the result of a shared-returning function unchanged
    changed = True
    while changed:
        changed = False
        for name, fn in mod.functions.items():
            if name in out:
                continue
            for n in ast.walk(fn):
                if isinstance(n, ast.Return) and isinstance(n.value, ast.Call) and isinstance(n.value.func, ast.Name) \
                        and n.value.func.id in out:
                    out[name] = "returns the shared result of %s()" % n.value.func.id
                    changed = True
    return out, glob


def _is_view_subscript(node):
    """a subscript that yields a view: contains a slice (numpy basic slicing)"""
    sl = node.slice
    parts = sl.elts if isinstance(sl, ast.Tuple) else [sl]
    return any(isinstance(p, ast.Slice) for p in parts)


def find_mutations(mod):
    """-> list of (function, node, description)"""
    shared, glob = shared_returning(mod)
    found = []
    for fname, fn in mod.functions.items():
        tracked = {}        # local name -> why shared

        def origin(expr):
            """why `expr` denotes shared storage, or None"""
            e = expr
            view = True
            while isinstance(e, ast.Subscript):
                if not _is_view_subscript(e) and not (isinstance(e.value, ast.Name) and e.value.id in glob):
                    # integer indexing of an ndarray of rank > 1 is still a view; of a container it is the stored object
                    pass
                e = e.value
            if isinstance(e, ast.Call) and isinstance(e.func, ast.Name) and e.func.id in shared:
                return "%s() %s" % (e.func.id, shared[e.func.id])
            if isinstance(e, ast.Name):
                if e.id in tracked:
                    return tracked[e.id]
                if e.id in glob and isinstance(expr, ast.Subscript):
                    return "an entry of the module-level container `%s`" % e.id
            return None
        for st in ast.walk(fn):
            if isinstance(st, ast.Assign) and len(st.targets) == 1 and isinstance(st.targets[0], ast.Name):
                why = origin(st.value) if isinstance(st.value, (ast.Call, ast.Subscript, ast.Name)) else None
                if why:
                    # scalar element of a 2-D view is a copy: only names bound to calls, names, slices or row indexing alias
                    v = st.value
                    if isinstance(v, ast.Subscript) and not _is_view_subscript(v) and isinstance(v.slice, ast.Tuple):
                        continue
                    tracked[st.targets[0].id] = why
        if not tracked and not any(isinstance(n, ast.Subscript) for n in ast.walk(fn)):
            continue
        for st in ast.walk(fn):
            if isinstance(st, ast.AugAssign):
                t = st.target
                base = t
                while isinstance(base, ast.Subscript):
                    base = base.value
                if isinstance(base, ast.Name) and base.id in tracked:
                    found.append((fname, st, "`%s` updates in place a value shared through %s" % (core.unparse(st)[:60], tracked[base.id])))
            elif isinstance(st, ast.Assign):
                for t in st.targets:
                    if isinstance(t, ast.Subscript):
                        base = t
                        while isinstance(base, ast.Subscript):
                            base = base.value
                        if isinstance(base, ast.Name) and base.id in tracked:
                            found.append((fname, st, "`%s` stores into a value shared through %s" % (core.unparse(st)[:60], tracked[base.id])))
            elif isinstance(st, ast.Call) and isinstance(st.func, ast.Attribute) and st.func.attr in INPLACE_METHODS \
                    and isinstance(st.func.value, ast.Name) and st.func.value.id in tracked:
                found.append((fname, st, "`%s` mutates in place a value shared through %s" % (core.unparse(st)[:60], tracked[st.func.value.id])))
    return found, shared


def check(ctx, pid, mod, functions=None):
    """rule `alias`: no in-place mutation of shared values in the module (optionally only in the named functions
    and whatever they call)"""
    found, shared = find_mutations(mod)
    ctx.rule("alias", "no in-place mutation of a value shared through a cache / module-level container")
    n = 0
    for fname, node, why in found:
        if functions is not None and fname not in functions:
            continue
        n += 1
        ctx.fail("%s:alias:%s:%s" % (pid, mod.rel, fname), why, core.loc(mod, node))
    if not n:
        ctx.ok("%s:alias:%s" % (pid, mod.rel), sample={"module": mod.rel, "shared_returning_functions": sorted(shared)})
    return n


def selfcheck():
    """the zero-count rule keeps a positive example that must match on every run"""
    import os
    p = os.path.join(core.VERIF, "selftest", "positive", "alias_shared_mutation.py")
    if not os.path.exists(p):
        raise core.AnalysisError("positive example selftest/positive/alias_shared_mutation.py is missing")

    class _M:
        pass
    m = _M()
    m.rel = "selftest/positive/alias_shared_mutation.py"
    src = open(p).read()
    m.tree = ast.parse(src)
    m.functions = {n.name: n for n in m.tree.body if isinstance(n, ast.FunctionDef)}
    m.assigns = {n.targets[0].id: n for n in m.tree.body if isinstance(n, ast.Assign) and isinstance(n.targets[0], ast.Name)}
    found, _ = find_mutations(m)
    if len(found) != 3:
        raise core.AnalysisError("positive example: the alias rule matched %d of 3 planted sites" % len(found))
