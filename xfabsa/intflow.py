"""
E8 -- partial evaluation of integer decision code (reflection conditions) into a residual expression.

The functions that decide systematic absences are pure integer code: tests on linear forms of (h, k, l), modular
arithmetic, flags, nested helper functions, short loops over permutations with early exits.  Given the *static* inputs of a
space-group setting (the 26-slot condition vector, crystal system, cell choice) the code is specialised: every test that
depends only on static data is folded, branches that depend on (h, k, l) are if-converted (both arms are evaluated, the
variables are merged with conditional expressions, identical arms merge back), loops are unrolled, `break`/`return` under a
dynamic condition become guard flags.  The result is ONE expression in h, k, l -- the code's decision for that setting --
that can be compared between the two modules as text and evaluated exhaustively over index boxes by the table algebra.
No path of the analysed code is executed on concrete reflections; what is evaluated on the boxes is the residual
expression, a model extracted from the source.
"""
from __future__ import annotations

import ast

from .core import AnalysisError, unparse
from .api import is_helper


class Dyn:
    """residual expression (python source over h, k, l); `parts` keeps the structure of a conditional (cond, then, else)"""
    __slots__ = ("src", "parts")

    def __init__(self, src, parts=None):
        if len(src) > SHARE_ABOVE:
            # a long subexpression is named once and referred to by name: nested conditionals on the same value (a loop that
            # stops at the first hit, unrolled) stay linear in size instead of repeating the value at every level
            name = SHARED.get(src)
            if name is None:
                name = "_t%d" % len(SHARED)
                SHARED[src] = name
            src = name
        self.src = src
        self.parts = parts

    def __repr__(self):
        return "Dyn(%s)" % self.src


SHARE_ABOVE = 200
SHARED = {}          # source text -> temporary name, in order of creation (reset by every Specialiser)


def closed_src(v):
    """the residual expression of v with the shared subexpressions it uses bound first:
    ((_t0 := ...), (_t1 := ...), ..., <expression>)[-1]"""
    import re
    text = src(v)
    by_name = {n: t for t, n in SHARED.items()}
    need, todo = set(), [text]
    while todo:
        for n in re.findall(r"\b_t\d+\b", todo.pop()):
            if n not in need:
                need.add(n)
                todo.append(by_name[n])
    if not need:
        return text
    order = sorted(need, key=lambda n: int(n[2:]))
    return "(%s, %s)[-1]" % (", ".join("(%s := %s)" % (n, by_name[n]) for n in order), text)


class Unbound:
    def __repr__(self):
        return "<unbound>"


class Poison:
    """a name whose value differs between the arms of a dynamic test in a way that has no residual form (two different
    functions, sequences of different length): harmless unless it is used afterwards"""

    def __init__(self, why):
        self.why = why

    def __repr__(self):
        return "<poison: %s>" % self.why


UNBOUND = Unbound()


def is_dyn(v):
    return isinstance(v, Dyn)


def src(v):
    if isinstance(v, Dyn):
        return v.src
    if isinstance(v, Unbound):
        return "None"
    if isinstance(v, Poison):
        raise AnalysisError("E8: %s" % v.why)
    if isinstance(v, (int, bool, str)) or v is None:
        return repr(v)
    raise AnalysisError("E8: value %r cannot appear in a residual expression" % (v,))


def vkey(v):
    if isinstance(v, Dyn):
        return "D:" + v.src
    if isinstance(v, (list, tuple)):
        return "[" + ",".join(vkey(x) for x in v) + "]"
    if isinstance(v, Closure):
        return "closure@%d" % id(v.node)
    if isinstance(v, Poison):
        return "poison@%d" % id(v)
    return repr(v)


class Closure:
    def __init__(self, node, env, mod_funcs=False, bound=False):
        self.node, self.env = node, env
        self.bound = bound          # a method with its first parameter already in env


def ite(c, a, b):
    if not is_dyn(c):
        return a if c else b
    if vkey(a) == vkey(b):
        return a
    if hasattr(a, "nt_fields") or hasattr(b, "nt_fields"):
        return Poison("a record value depends on the reflection")
    if isinstance(a, (list, tuple)) and isinstance(b, (list, tuple)) and len(a) == len(b):
        return type(a)(ite(c, x, y) for x, y in zip(a, b))
    if isinstance(a, (Closure, Poison)) or isinstance(b, (Closure, Poison)):
        return Poison("a function value depends on the reflection")
    if isinstance(a, (list, tuple)) or isinstance(b, (list, tuple)):
        return Poison("sequences of different length on the two arms of a dynamic test")
    if isinstance(a, Unbound) or isinstance(b, Unbound):
        return Poison("bound on one arm of a dynamic test only")
    # (x if c2 else e) if c else e  ==  x if (c and c2) else e      -- keeps a chain of guarded overrides linear in size
    if is_dyn(a) and a.parts is not None and vkey(a.parts[2]) == vkey(b):
        return ite(b_and(c, a.parts[0]), a.parts[1], b)
    # e if c else (x if c2 else e)  ==  x if ((not c) and c2) else e
    if is_dyn(b) and b.parts is not None and vkey(b.parts[2]) == vkey(a):
        return ite(b_and(b_not(c), b.parts[0]), b.parts[1], a)
    return Dyn("(%s if %s else %s)" % (src(a), c.src, src(b)), parts=(c, a, b))


def truth(v):
    """static truth value or the Dyn itself"""
    if is_dyn(v):
        return v
    if isinstance(v, Unbound):
        raise AnalysisError("E8: use of an unbound value in a test")
    return bool(v)


def b_not(v):
    v = truth(v)
    return Dyn("(not %s)" % v.src) if is_dyn(v) else (not v)


def b_and(a, b):
    a, b = truth(a), truth(b)
    if not is_dyn(a):
        return b if a else False
    if not is_dyn(b):
        return a if b else False
    return Dyn("(%s and %s)" % (a.src, b.src))


def b_or(a, b):
    a, b = truth(a), truth(b)
    if not is_dyn(a):
        return True if a else b
    if not is_dyn(b):
        return True if b else a
    return Dyn("(%s or %s)" % (a.src, b.src))


BIN = {ast.Add: "+", ast.Sub: "-", ast.Mult: "*", ast.Mod: "%", ast.FloorDiv: "//"}
CMP = {ast.Eq: "==", ast.NotEq: "!=", ast.Lt: "<", ast.LtE: "<=", ast.Gt: ">", ast.GtE: ">="}
FLAGS = ("$ret", "$brk", "$cnt")


class Specialiser:
    def __init__(self, mod, max_depth=8):
        self.mod = mod
        self.depth = 0
        self.max_depth = max_depth
        SHARED.clear()

    # ------------------------------------------------------------------ API
    def specialise(self, fname, args):
        """args: static python values, or Dyn / lists of Dyn for the dynamic ones -> residual value of the call"""
        return self.call_def(self.mod.func(fname), list(args), {}, {})

    def call_def(self, fn, args, kwargs, closure_env):
        home = getattr(fn, "_xmod", None)
        if home is not None and home is not self.mod and getattr(home, "rel", None) != self.mod.rel:
            # a function imported back from a private module runs with that module's globals
            prev = self.mod
            self.mod = home
            try:
                return self.call_def(fn, args, kwargs, closure_env)
            finally:
                self.mod = prev
        if self.depth >= self.max_depth:
            raise AnalysisError("E8: call depth exceeded at %s" % getattr(fn, "name", "<lambda>"))
        a = fn.args
        if a.vararg or a.kwarg or a.kwonlyargs:
            raise AnalysisError("E8: unsupported signature of %s" % getattr(fn, "name", "<lambda>"))
        params = [x.arg for x in list(getattr(a, "posonlyargs", [])) + list(a.args)]
        env = dict(closure_env)
        if params and params[0] in closure_env and getattr(self, "_calling_bound", False):
            params = params[1:]
        nd = len(a.defaults)
        for i, p in enumerate(params):
            if i < len(args):
                env[p] = args[i]
            elif p in kwargs:
                env[p] = kwargs[p]
            else:
                j = i - (len(params) - nd)
                if j < 0:
                    raise AnalysisError("E8: missing argument %s of %s" % (p, getattr(fn, "name", "<lambda>")))
                env[p] = self.eval(a.defaults[j], {})
        if isinstance(fn, ast.Lambda):
            return self.eval(fn.body, env)
        for f in FLAGS:
            env[f] = False
        env["$val"] = None
        from .symeval import is_generator
        gen = is_generator(fn)
        if gen:
            env["$yield"] = []          # a generator function is run to completion: the caller gets the yielded values
        self.depth += 1
        try:
            self.block(fn.body, env)
        finally:
            self.depth -= 1
        if gen:
            if not isinstance(env.get("$yield"), list):
                raise AnalysisError("E8: generator %s yields under a condition that is not static" % getattr(fn, "name", "?"))
            return env["$yield"]
        return env["$val"]

    # ------------------------------------------------------ static data of the module
    def module_constant(self, name):
        """a module-level table: evaluated once by the full interpreter (helper calls, named tuples, comprehensions, operator /
        itertools / functools models) and imported as static data; lambdas and local functions in it become closures that
        are specialised where they are applied"""
        cache = self.__dict__.setdefault("_consts_by_mod", {}).setdefault(self.mod.rel, {})
        if name in cache:
            return cache[name]
        try:
            from .objeval import FullEvaluator
            cache[name] = self.import_static(FullEvaluator(self.mod, max_depth=10).module_constant(name))
        except AnalysisError as e:
            try:
                cache[name] = self.eval(self.mod.assigns[name].value, {})
            except AnalysisError:
                raise AnalysisError("E8: module-level constant %s cannot be evaluated: %s" % (name, e))
        return cache[name]

    def import_static(self, v, depth=0):
        from fractions import Fraction
        from .poly import Rat
        from .symeval import Arr, NTuple
        if depth > 12:
            raise AnalysisError("E8: static table nested too deeply")
        if v is None or isinstance(v, (bool, str, int)):
            return v
        if isinstance(v, Rat):
            if not v.is_const():
                raise AnalysisError("E8: a static table holds a symbolic value")
            c = Fraction(v.const_value())
            return int(c) if c.denominator == 1 else c
        if isinstance(v, Arr):
            return self.import_static(v.data, depth + 1)
        if isinstance(v, NTuple):
            return NTuple(v.nt_name, v.nt_fields, [self.import_static(x, depth + 1) for x in v], klass=getattr(v, "cls", None))
        if isinstance(v, tuple) and len(v) == 3 and v[0] == "closure":
            return Closure(v[1], {k: self.import_static(x, depth + 1) for k, x in v[2].items() if not k.startswith("$")})
        if isinstance(v, tuple) and len(v) in (2, 3) and v[0] == "function":
            from . import core as _core
            m_ = _core.module(v[2]) if len(v) == 3 else self.mod
            if v[1] in m_.functions:
                return Closure(m_.functions[v[1]], {})
        if isinstance(v, tuple) and len(v) == 2 and v[0] == "builtin":
            return ("builtin", v[1])
        if isinstance(v, tuple) and v and isinstance(v[0], str) and v[0] in ("partial",):
            raise AnalysisError("E8: functools.partial in a static table")
        if isinstance(v, tuple):
            return tuple(self.import_static(x, depth + 1) for x in v)
        if isinstance(v, list):
            return [self.import_static(x, depth + 1) for x in v]
        if isinstance(v, dict):
            return {k: self.import_static(x, depth + 1) for k, x in v.items()}
        raise AnalysisError("E8: a static table holds a %s" % type(v).__name__)

    # ----------------------------------------------------------- statements
    def stopped(self, env):
        return b_or(b_or(env["$ret"], env["$brk"]), env["$cnt"])

    def block(self, stmts, env):
        for i, st in enumerate(stmts):
            self.stmt(st, env)
            stop = self.stopped(env)
            if stop is True:
                return
            if is_dyn(stop):
                rest = dict(env)
                self.block(stmts[i + 1:], rest)
                # a name first bound AFTER the point where the function has (conditionally) returned is dead on the returned arm
                only_return = env["$brk"] is False and env["$cnt"] is False
                self.merge(env, stop, env, rest, dead_true=only_return)
                return

    def merge(self, target, cond, env_true, env_false, dead_true=False):
        """target[var] := env_true[var] if cond else env_false[var]"""
        keys = set(env_true) | set(env_false)
        out = {}
        for k in keys:
            a = env_true.get(k, UNBOUND)
            b = env_false.get(k, UNBOUND)
            if dead_true and isinstance(a, Unbound) and not k.startswith("$"):
                out[k] = b
                continue
            out[k] = a if vkey(a) == vkey(b) else ite(cond, a, b)
        target.clear()
        target.update(out)

    def stmt(self, st, env):
        if isinstance(st, ast.Expr):
            if isinstance(st.value, ast.Constant):
                return
            if isinstance(st.value, ast.Yield):
                if not isinstance(env.get("$yield"), list):
                    raise AnalysisError("E8: yield outside a generator function (line %d)" % st.lineno)
                env["$yield"] = env["$yield"] + [self.eval(st.value.value, env) if st.value.value is not None else None]
                return
            if isinstance(st.value, ast.Call):
                f = st.value.func
                if isinstance(f, ast.Attribute) and isinstance(f.value, ast.Name) and f.value.id in ("logger", "logging"):
                    return
                if isinstance(f, ast.Name) and f.id == "print":
                    return
            self.eval(st.value, env)
            return
        if isinstance(st, ast.Assign):
            v = self.eval(st.value, env)
            for t in st.targets:
                self.assign(t, v, env)
            return
        if isinstance(st, ast.AugAssign):
            cur = self.eval(st.target, env)
            v = self.binop(st.op, cur, self.eval(st.value, env))
            self.assign(st.target, v, env)
            return
        if isinstance(st, ast.Return):
            env["$val"] = self.eval(st.value, env) if st.value is not None else None
            env["$ret"] = True
            return
        if isinstance(st, ast.Pass):
            return
        if isinstance(st, ast.Break):
            env["$brk"] = True
            return
        if isinstance(st, ast.Continue):
            env["$cnt"] = True
            return
        if isinstance(st, ast.If):
            c = truth(self.eval(st.test, env))
            if not is_dyn(c):
                self.block(st.body if c else st.orelse, env)
                return
            e1, e2 = dict(env), dict(env)
            self.block(st.body, e1)
            self.block(st.orelse, e2)
            self.merge(env, c, e1, e2)
            return
        if isinstance(st, ast.For):
            it = self.eval(st.iter, env)
            if is_dyn(it) or not isinstance(it, (list, tuple, range)):
                raise AnalysisError("E8: loop over a value that depends on the reflection (line %d)" % st.lineno)
            if len(it) > 64:
                raise AnalysisError("E8: loop too long (line %d)" % st.lineno)
            for x in it:
                if env["$brk"] is True or env["$ret"] is True:
                    break
                guard = b_or(env["$brk"], env["$ret"])
                if is_dyn(guard):
                    e2 = dict(env)
                    self.assign(st.target, x, e2)
                    self.block(st.body, e2)
                    e2["$cnt"] = False
                    self.merge(env, guard, env, e2)
                else:
                    self.assign(st.target, x, env)
                    self.block(st.body, env)
                    env["$cnt"] = False
            broke = env["$brk"]
            env["$brk"] = False
            if st.orelse:
                if broke is False:
                    self.block(st.orelse, env)
                elif is_dyn(broke):
                    e2 = dict(env)
                    self.block(st.orelse, e2)
                    self.merge(env, broke, env, e2)
            return
        if isinstance(st, ast.FunctionDef):
            env[st.name] = Closure(st, env)
            return
        if isinstance(st, (ast.Import, ast.ImportFrom, ast.Assert, ast.Global)):
            return
        if isinstance(st, ast.Raise):
            # an exception on a path that depends on the reflection cannot be expressed in the residual
            raise AnalysisError("E8: raise statement reached (line %d)" % st.lineno)
        raise AnalysisError("E8: unsupported statement %s (line %d)" % (type(st).__name__, st.lineno))

    def assign(self, target, v, env):
        if isinstance(target, ast.Name):
            env[target.id] = v
            return
        if isinstance(target, (ast.Tuple, ast.List)):
            if is_dyn(v) or not isinstance(v, (list, tuple)) or len(v) != len(target.elts):
                raise AnalysisError("E8: cannot unpack (line %d)" % target.lineno)
            for t, x in zip(target.elts, v):
                self.assign(t, x, env)
            return
        if isinstance(target, ast.Subscript):
            base = self.eval(target.value, env)
            idx = self.eval(target.slice, env)
            if isinstance(base, list) and isinstance(idx, int) and not isinstance(idx, bool):
                new = list(base)
                new[idx] = v
                # lists are values here (no aliasing is tracked): rebind the name
                if isinstance(target.value, ast.Name):
                    env[target.value.id] = new
                    return
        raise AnalysisError("E8: unsupported assignment target (line %d)" % target.lineno)

    # ---------------------------------------------------------- expressions
    def eval(self, node, env):
        m = getattr(self, "e_" + type(node).__name__, None)
        if m is None:
            raise AnalysisError("E8: unsupported expression %s (line %d)" % (type(node).__name__, getattr(node, "lineno", 0)))
        return m(node, env)

    def e_Constant(self, node, env):
        v = node.value
        if isinstance(v, float) and v == int(v):
            return int(v)
        return v

    def e_Name(self, node, env):
        if node.id in env:
            v = env[node.id]
            if isinstance(v, Unbound):
                raise AnalysisError("E8: `%s` may be unbound here (line %d)" % (node.id, node.lineno))
            if isinstance(v, Poison):
                raise AnalysisError("E8: `%s`: %s (line %d)" % (node.id, v.why, node.lineno))
            return v
        if node.id in self.mod.functions:
            return Closure(self.mod.functions[node.id], {})
        if node.id in ("abs", "len", "range", "int", "list", "tuple", "all", "any", "sum", "min", "max", "bool", "divmod", "enumerate", "zip", "iter"):
            return ("builtin", node.id)
        if node.id in getattr(self.mod, "assigns", {}):
            return self.module_constant(node.id)
        if node.id in self.mod.np_alias:
            return ("numpy",)
        raise AnalysisError("E8: unbound name %s (line %d)" % (node.id, node.lineno))

    def e_List(self, node, env):
        return [self.eval(e, env) for e in node.elts]

    def e_Tuple(self, node, env):
        return tuple(self.eval(e, env) for e in node.elts)

    def e_Lambda(self, node, env):
        return Closure(node, env)

    def e_IfExp(self, node, env):
        c = truth(self.eval(node.test, env))
        if not is_dyn(c):
            return self.eval(node.body if c else node.orelse, env)
        return ite(c, self.eval(node.body, env), self.eval(node.orelse, env))

    def e_UnaryOp(self, node, env):
        v = self.eval(node.operand, env)
        if isinstance(node.op, ast.Not):
            return b_not(v)
        if isinstance(node.op, ast.USub):
            return Dyn("(-%s)" % v.src) if is_dyn(v) else -v
        if isinstance(node.op, ast.UAdd):
            return v
        raise AnalysisError("E8: unary operator (line %d)" % node.lineno)

    def binop(self, op, a, b):
        if type(op) not in BIN:
            raise AnalysisError("E8: operator %s" % type(op).__name__)
        if isinstance(a, (list, tuple)) and isinstance(b, (list, tuple)) and isinstance(op, ast.Add):
            return list(a) + list(b) if isinstance(a, list) else tuple(a) + tuple(b)
        if is_dyn(a) or is_dyn(b):
            return Dyn("(%s %s %s)" % (src(a), BIN[type(op)], src(b)))
        if isinstance(a, (list, tuple, str)) or isinstance(b, (list, tuple, str)):
            raise AnalysisError("E8: arithmetic on sequences")
        if isinstance(op, (ast.Mod, ast.FloorDiv)) and b == 0:
            raise AnalysisError("E8: division by zero on a static path")
        return {ast.Add: lambda: a + b, ast.Sub: lambda: a - b, ast.Mult: lambda: a * b, ast.Mod: lambda: a % b,
                ast.FloorDiv: lambda: a // b}[type(op)]()

    def e_BinOp(self, node, env):
        return self.binop(node.op, self.eval(node.left, env), self.eval(node.right, env))

    def e_BoolOp(self, node, env):
        is_and = isinstance(node.op, ast.And)
        acc = None
        for v in node.values:
            # short circuit on static operands: the rest is not even evaluated
            if acc is not None and not is_dyn(acc):
                if is_and and not acc:
                    return False
                if not is_and and acc:
                    return True
            r = truth(self.eval(v, env))
            acc = r if acc is None else (b_and(acc, r) if is_and else b_or(acc, r))
        return acc

    def e_Compare(self, node, env):
        left = self.eval(node.left, env)
        acc = True
        for op, c in zip(node.ops, node.comparators):
            right = self.eval(c, env)
            if isinstance(op, (ast.Is, ast.IsNot)):
                if is_dyn(left) or is_dyn(right):
                    r = isinstance(op, ast.IsNot)            # an integer expression is never None / True / False
                else:
                    r = (left is right) if isinstance(op, ast.Is) else (left is not right)
            elif isinstance(op, (ast.In, ast.NotIn)):
                if is_dyn(left) or is_dyn(right) or any(is_dyn(x) for x in (right if isinstance(right, (list, tuple)) else [])):
                    raise AnalysisError("E8: membership test on a dynamic value (line %d)" % node.lineno)
                r = (left in right) if isinstance(op, ast.In) else (left not in right)
            elif type(op) in CMP:
                if is_dyn(left) or is_dyn(right):
                    if (left is None or right is None) and isinstance(op, (ast.Eq, ast.NotEq)):
                        r = isinstance(op, ast.NotEq)
                    else:
                        r = Dyn("(%s %s %s)" % (src(left), CMP[type(op)], src(right)))
                else:
                    try:
                        r = {ast.Eq: lambda: left == right, ast.NotEq: lambda: left != right, ast.Lt: lambda: left < right,
                             ast.LtE: lambda: left <= right, ast.Gt: lambda: left > right, ast.GtE: lambda: left >= right}[type(op)]()
                    except TypeError:
                        raise AnalysisError("E8: comparison of incomparable static values (line %d)" % node.lineno)
            else:
                raise AnalysisError("E8: comparison operator (line %d)" % node.lineno)
            acc = b_and(acc, r)
            left = right
        return acc

    def e_Subscript(self, node, env):
        base = self.eval(node.value, env)
        if isinstance(node.slice, ast.Slice):
            lo = self.eval(node.slice.lower, env) if node.slice.lower is not None else None
            hi = self.eval(node.slice.upper, env) if node.slice.upper is not None else None
            if is_dyn(base) or is_dyn(lo) or is_dyn(hi) or not isinstance(base, (list, tuple, str)):
                raise AnalysisError("E8: slice of a dynamic value (line %d)" % node.lineno)
            return base[lo:hi]
        idx = self.eval(node.slice, env)
        if is_dyn(base) or is_dyn(idx):
            raise AnalysisError("E8: subscript that depends on the reflection (line %d)" % node.lineno)
        if isinstance(base, dict):
            if idx not in base:
                raise AnalysisError("E8: key %r not in a static dictionary (line %d)" % (idx, node.lineno))
            return base[idx]
        if not isinstance(base, (list, tuple, str)) or isinstance(idx, bool) or not isinstance(idx, int):
            raise AnalysisError("E8: unsupported subscript (line %d)" % node.lineno)
        try:
            return base[idx]
        except IndexError:
            raise AnalysisError("E8: index %d out of range (line %d)" % (idx, node.lineno))

    def e_Attribute(self, node, env):
        base = self.eval(node.value, env)
        if base == ("numpy",):
            return ("npfunc", node.attr)
        if hasattr(base, "nt_fields") and node.attr in base.nt_fields:
            return base[base.nt_fields.index(node.attr)]
        if hasattr(base, "nt_fields") and getattr(base, "cls", None) is not None:
            for n_ in base.cls.body:
                if isinstance(n_, ast.FunctionDef) and n_.name == node.attr:
                    if any(unparse(d).split(".")[-1] == "property" for d in n_.decorator_list):
                        return self.call_def(n_, [base], {}, {})
                    return Closure(n_, {n_.args.args[0].arg: base}, bound=True)
        return ("method", base, node.attr)

    def e_ListComp(self, node, env):
        envs = [dict(env)]
        for g in node.generators:
            nxt = []
            for e in envs:
                it = self.eval(g.iter, e)
                if is_dyn(it) or not isinstance(it, (list, tuple, range)):
                    raise AnalysisError("E8: comprehension over a dynamic value (line %d)" % node.lineno)
                for x in it:
                    e2 = dict(e)
                    self.assign(g.target, x, e2)
                    conds = [truth(self.eval(c, e2)) for c in g.ifs]
                    if any(is_dyn(c) for c in conds):
                        raise AnalysisError("E8: comprehension filter depends on the reflection (line %d)" % node.lineno)
                    if all(conds):
                        nxt.append(e2)
            envs = nxt
        return [self.eval(node.elt, e) for e in envs]

    e_GeneratorExp = e_ListComp

    def e_Call(self, node, env):
        f = self.eval(node.func, env)
        args = [self.eval(a, env) for a in node.args]
        kwargs = {k.arg: self.eval(k.value, env) for k in node.keywords}
        if None in kwargs:
            raise AnalysisError("E8: ** call (line %d)" % node.lineno)
        if isinstance(f, Closure):
            self._calling_bound = bool(getattr(f, "bound", False))
            try:
                return self.call_def(f.node, args, kwargs, f.env)
            finally:
                self._calling_bound = False
        if isinstance(f, tuple) and f[0] == "builtin":
            return self.builtin(f[1], args, node)
        if isinstance(f, tuple) and f[0] == "npfunc":
            if f[1] in ("abs", "absolute") and len(args) == 1:
                return self.builtin("abs", args, node)
            if f[1] in ("mod", "remainder") and len(args) == 2:
                return self.binop(ast.Mod(), args[0], args[1])
            if f[1] in ("array", "asarray") and len(args) >= 1:
                return args[0]
            raise AnalysisError("E8: numpy.%s (line %d)" % (f[1], node.lineno))
        if isinstance(f, tuple) and f[0] == "method":
            base, attr = f[1], f[2]
            if attr in ("lower", "upper", "strip") and isinstance(base, str) and not args:
                return getattr(base, attr)()
            if attr in ("startswith", "endswith") and isinstance(base, str) and len(args) == 1 and isinstance(args[0], str):
                return getattr(base, attr)(args[0])
            if attr == "get" and isinstance(base, dict) and 1 <= len(args) <= 2:
                return base.get(args[0], args[1] if len(args) == 2 else None)
            if attr == "tolist" and isinstance(base, (list, tuple)):
                return list(base)
        raise AnalysisError("E8: call of `%s` (line %d)" % (unparse(node.func)[:40], node.lineno))

    def builtin(self, name, args, node):
        if name == "abs" and len(args) == 1:
            return Dyn("abs(%s)" % args[0].src) if is_dyn(args[0]) else abs(args[0])
        if name == "len" and len(args) == 1 and isinstance(args[0], (list, tuple, str)):
            return len(args[0])
        if name == "range" and all(isinstance(a, int) and not isinstance(a, bool) for a in args):
            return list(range(*args))
        if name == "iter" and len(args) == 1 and isinstance(args[0], (list, tuple)) and not isinstance(args[0], Closure):
            return list(args[0])
        if name == "enumerate" and 1 <= len(args) <= 2 and isinstance(args[0], (list, tuple)) and not isinstance(args[0], Closure) \
                and (len(args) == 1 or (isinstance(args[1], int) and not isinstance(args[1], bool))):
            return [(i_, x_) for i_, x_ in enumerate(args[0], *(args[1:]))]
        if name == "zip" and args and all(isinstance(a, (list, tuple)) and not isinstance(a, Closure) for a in args):
            return [tuple(t_) for t_ in zip(*args)]
        if name in ("list", "tuple") and len(args) == 1 and isinstance(args[0], (list, tuple, range)):
            return list(args[0]) if name == "list" else tuple(args[0])
        if name == "int" and len(args) == 1:
            return args[0] if is_dyn(args[0]) else int(args[0])
        if name == "bool" and len(args) == 1:
            return truth(args[0])
        if name in ("all", "any") and len(args) == 1 and isinstance(args[0], (list, tuple)):
            acc = name == "all"
            for x in args[0]:
                acc = b_and(acc, x) if name == "all" else b_or(acc, x)
            return acc
        if name == "sum" and len(args) == 1 and isinstance(args[0], (list, tuple)):
            tot = 0
            for x in args[0]:
                tot = self.binop(ast.Add(), tot, x)
            return tot
        if name in ("min", "max") and all(not is_dyn(a) for a in args):
            flat = args[0] if len(args) == 1 and isinstance(args[0], (list, tuple)) else args
            return (min if name == "min" else max)(flat)
        raise AnalysisError("E8: builtin %s (line %d)" % (name, node.lineno))


def residual_function(expr_src):
    """compile a residual expression into a callable of (h, k, l)"""
    return eval("lambda h, k, l: (%s)" % expr_src, {"__builtins__": {"abs": abs}})
