"""
Interval abstract domain over the normal forms of xfabsa.poly: given bounds for the atoms, an enclosure of the value of
a rational function with function atoms (abs, round, floor, ceil, mod, sqrt, max, min, clip, sign).  Exact rational
arithmetic except for square roots (enclosed with a relative margin).  Used to decide tolerance comparisons on
abstract inputs ("an integer plus a rounding error of at most 1e-6", "a genuine fraction between 0.1 and 0.2").
"""
from __future__ import annotations

import math
from fractions import Fraction

from .poly import Rat, mono_items, ATOM_ARGS, RADICAND


class Unbounded(Exception):
    """the enclosure cannot be computed (unknown atom, division through zero, unsupported function)"""


def _f(x):
    return x if isinstance(x, Fraction) else Fraction(x)


def imul(a, b):
    ps = [a[0] * b[0], a[0] * b[1], a[1] * b[0], a[1] * b[1]]
    return (min(ps), max(ps))


def ipow(a, e):
    if e == 0:
        return (Fraction(1), Fraction(1))
    if e % 2 == 1 or a[0] >= 0:
        return (a[0] ** e, a[1] ** e)
    if a[1] <= 0:
        return (a[1] ** e, a[0] ** e)
    return (Fraction(0), max(a[0] ** e, a[1] ** e))


def ipoly(p, bounds, cache):
    lo = hi = Fraction(0)
    for m, c in p.items():
        t = (Fraction(c), Fraction(c))
        for a, e in mono_items(m):
            t = imul(t, ipow(iatom(a, bounds, cache), e))
        lo += t[0]
        hi += t[1]
    return (lo, hi)


def _round_half_even(x: Fraction) -> int:
    return round(x)


def iatom(a, bounds, cache):
    if a in cache:
        return cache[a]
    if a in bounds:
        r = (_f(bounds[a][0]), _f(bounds[a][1]))
    elif a == "pi":
        r = (Fraction("3.14159265358979"), Fraction("3.14159265358980"))
    elif a in ATOM_ARGS:
        name, args = ATOM_ARGS[a]
        iv = [ieval(x, bounds, cache) for x in args]
        r = ifunc(name, iv)
    elif a in RADICAND and a.startswith("sqrt("):
        lo, hi = ieval(RADICAND[a], bounds, cache)
        if lo < 0:
            if hi < 0:
                raise Unbounded("square root of a negative enclosure")
            lo = Fraction(0)
        r = (Fraction(math.sqrt(float(lo))) * Fraction(999999, 1000000), Fraction(math.sqrt(float(hi))) * Fraction(1000001, 1000000))
    else:
        raise Unbounded("no bounds for atom %s" % a)
    cache[a] = r
    return r


def ifunc(name, iv):
    if name in ("abs", "absolute", "fabs") and len(iv) == 1:
        lo, hi = iv[0]
        if lo >= 0:
            return (lo, hi)
        if hi <= 0:
            return (-hi, -lo)
        return (Fraction(0), max(-lo, hi))
    if name in ("round", "rint", "around") and len(iv) == 1:
        return (Fraction(_round_half_even(iv[0][0])), Fraction(_round_half_even(iv[0][1])))
    if name == "floor" and len(iv) == 1:
        return (Fraction(math.floor(iv[0][0])), Fraction(math.floor(iv[0][1])))
    if name == "ceil" and len(iv) == 1:
        return (Fraction(math.ceil(iv[0][0])), Fraction(math.ceil(iv[0][1])))
    if name in ("fix", "trunc") and len(iv) == 1:
        return (Fraction(math.trunc(iv[0][0])), Fraction(math.trunc(iv[0][1])))
    if name in ("mod", "remainder") and len(iv) == 2:
        (lo, hi), (ml, mh) = iv
        if ml != mh or ml <= 0:
            raise Unbounded("mod by a non-constant")
        m = ml
        if math.floor(lo / m) == math.floor(hi / m):
            k = math.floor(lo / m)
            return (lo - k * m, hi - k * m)
        return (Fraction(0), m)            # the enclosure crosses a multiple of m
    if name == "fmod" and len(iv) == 2:
        (lo, hi), (ml, mh) = iv
        if ml != mh or ml <= 0:
            raise Unbounded("fmod by a non-constant")
        m = ml
        if math.trunc(lo / m) == math.trunc(hi / m) and (lo >= 0 or hi <= 0):
            k = math.trunc(lo / m)
            return (lo - k * m, hi - k * m)
        return (-m, m)
    if name in ("max", "amax", "maximum") and iv:
        return (max(x[0] for x in iv), max(x[1] for x in iv))
    if name in ("min", "amin", "minimum") and iv:
        return (min(x[0] for x in iv), min(x[1] for x in iv))
    if name == "clip" and len(iv) == 3:
        (lo, hi), (cl, _c2), (_c3, ch) = iv
        return (min(max(lo, cl), ch), min(max(hi, cl), ch))
    if name == "sign" and len(iv) == 1:
        lo, hi = iv[0]
        s = lambda v: Fraction((v > 0) - (v < 0))
        return (s(lo), s(hi))
    if name == "square" and len(iv) == 1:
        return ipow(iv[0], 2)
    if name == "float" and len(iv) == 1:
        return iv[0]
    raise Unbounded("function %s has no interval semantics" % name)


def ieval(r: Rat, bounds, cache=None):
    """-> (lo, hi) enclosing r for all atom values within bounds"""
    cache = {} if cache is None else cache
    num = ipoly(r.num, bounds, cache)
    den = ipoly(r.den, bounds, cache)
    if den[0] <= 0 <= den[1]:
        raise Unbounded("denominator enclosure contains zero")
    inv = (1 / den[1], 1 / den[0])
    return imul(num, inv)
