"""
Binary-float shadow of constant folding.

E3 / E7 fold constants in exact rational arithmetic.  That is the right semantics for the algebraic laws, and the wrong one
at the few places where the code *truncates*: `int(x)` of a float that is an integer only in exact arithmetic (a sum of
reciprocals, a product with a rounded factor) is that integer or the one below, depending on how the binary operations
round.  When a truncating conversion is folded, the expression it is applied to is folded a second time here, in IEEE
double arithmetic (Python floats are IEEE doubles, every single operation is correctly rounded, so the shadow of a scalar
expression is the value the code computes), in the order the code prescribes.

Only what can be shadowed faithfully is shadowed; everything else answers None ("no shadow") and the exact value stands:
 * leaves must be exactly representable (integers, dyadic rationals, literals as written) -- a leaf that was itself computed
   in floating point has no faithful shadow;
 * sums of fewer than 8 terms: numpy adds them one after the other (its pairwise scheme starts at 8); both plausible
   orders, left to right and first + (rest left to right), are computed and must agree;
 * + - * / ** abs, unary minus, len, float(), element-wise on nested lists.
"""
import ast
from fractions import Fraction


class NoShadow(Exception):
    pass


def _leaf(v):
    from .poly import Rat
    from .symeval import Arr
    if isinstance(v, bool):
        return v
    if isinstance(v, int):
        return v
    if isinstance(v, float):
        return v
    if isinstance(v, Fraction):
        v = Rat.const(v)
    if isinstance(v, Rat):
        if not v.is_const():
            raise NoShadow()
        c = Fraction(v.const_value())
        if c.denominator == 1:
            if abs(c.numerator) > 2 ** 53:
                raise NoShadow()
            return int(c.numerator)
        d = c.denominator
        if d & (d - 1) == 0 and abs(c.numerator) < 2 ** 53 and d <= 2 ** 60:
            return float(c)            # dyadic: exactly representable
        raise NoShadow()               # a value that went through rounding before: its binary value is not known
    if isinstance(v, Arr):
        def rec(d):
            return [rec(x) for x in d] if isinstance(d, list) else _leaf(d)
        return rec(v.data)
    if isinstance(v, (list, tuple)):
        return [_leaf(x) for x in v]
    raise NoShadow()


def _ew(f, a, b):
    if isinstance(a, list) and isinstance(b, list):
        if len(a) != len(b):
            raise NoShadow()
        return [_ew(f, x, y) for x, y in zip(a, b)]
    if isinstance(a, list):
        return [_ew(f, x, b) for x in a]
    if isinstance(b, list):
        return [_ew(f, a, y) for y in b]
    return f(a, b)


def _flat(v):
    if isinstance(v, list):
        out = []
        for x in v:
            out += _flat(x)
        return out
    return [v]


def _sum(vals):
    vals = [float(x) if not isinstance(x, bool) else float(int(x)) for x in vals]
    if not vals:
        return 0.0
    if len(vals) >= 8:
        raise NoShadow()
    left = 0.0
    for x in vals:
        left += x
    rest = 0.0
    for x in vals[1:]:
        rest += x
    other = vals[0] + rest
    if left != other:
        raise NoShadow()
    return left


def shadow(ev, node, env):
    """-> the IEEE value of the expression, or raises NoShadow"""
    if isinstance(node, ast.Constant):
        if isinstance(node.value, (int, float)) and not isinstance(node.value, bool):
            return node.value
        raise NoShadow()
    if isinstance(node, ast.Name):
        if node.id not in env:
            raise NoShadow()
        return _leaf(env[node.id])
    if isinstance(node, ast.UnaryOp) and isinstance(node.op, ast.USub):
        v = shadow(ev, node.operand, env)
        return _ew(lambda a, _b: -a, v, 0)
    if isinstance(node, ast.BinOp):
        a, b = shadow(ev, node.left, env), shadow(ev, node.right, env)
        try:
            if isinstance(node.op, ast.Add):
                return _ew(lambda x, y: x + y, a, b)
            if isinstance(node.op, ast.Sub):
                return _ew(lambda x, y: x - y, a, b)
            if isinstance(node.op, ast.Mult):
                return _ew(lambda x, y: x * y, a, b)
            if isinstance(node.op, ast.Div):
                return _ew(lambda x, y: x / y, a, b)
            if isinstance(node.op, ast.Pow):
                return _ew(lambda x, y: x ** y, a, b)
        except (ZeroDivisionError, OverflowError, TypeError):
            raise NoShadow()
        raise NoShadow()
    if isinstance(node, ast.Call) and not node.keywords:
        fname = None
        if isinstance(node.func, ast.Attribute):
            base = node.func.value
            if isinstance(base, ast.Name) and base.id in ev.mod.np_alias:
                fname = node.func.attr
                args = node.args
            elif node.func.attr == "sum" and not node.args:
                fname, args = "sum", [base]
        elif isinstance(node.func, ast.Name) and node.func.id in ("sum", "float", "abs", "len") and node.func.id not in env:
            fname, args = node.func.id, node.args
        if fname == "sum" and len(args) == 1:
            return _sum(_flat(shadow(ev, args[0], env)))
        if fname == "float" and len(args) == 1:
            v = shadow(ev, args[0], env)
            if isinstance(v, list):
                raise NoShadow()
            return float(v)
        if fname in ("abs", "fabs", "absolute") and len(args) == 1:
            return _ew(lambda x, _y: abs(x), shadow(ev, args[0], env), 0)
        if fname == "len" and len(args) == 1:
            v = shadow(ev, args[0], env)
            if isinstance(v, list):
                return len(v)
        raise NoShadow()
    raise NoShadow()


def truncation(ev, node, env, exact):
    """int(<node>) folded exactly to `exact` (a Fraction): the integer the binary computation truncates to, or None"""
    try:
        v = shadow(ev, node, env)
    except NoShadow:
        return None
    if isinstance(v, list) or isinstance(v, bool):
        return None
    if isinstance(v, int):
        return v
    if v != v or v in (float("inf"), float("-inf")):
        return None
    return int(v)
