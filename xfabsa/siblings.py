"""
E1 -- sibling equivalence by normalised syntax trees.

normalise(): docstrings and logger calls dropped, the numpy alias renamed to
NP, locals alpha-renamed in order of first binding, numeric literals
canonicalised, `2*NP.pi` folded to the name TAU (and `4*NP.pi` to 2*TAU).

tree_diff(): structural comparison of two normalised trees that tolerates
multiplicative TAU factors present on the left side only, returning the list
of such tau sites and the list of other differences, each classified as a
*token* difference (same shape, different leaf: operator, constant, name,
attribute) or a *shape* difference.
"""
from __future__ import annotations

import ast
import copy
from fractions import Fraction

from .core import body_wo_doc, unparse


def _is_logger_stmt(st):
    return (isinstance(st, ast.Expr) and isinstance(st.value, ast.Call)
            and isinstance(st.value.func, ast.Attribute) and isinstance(st.value.func.value, ast.Name)
            and st.value.func.value.id == "logger")


class _Normaliser(ast.NodeTransformer):
    def __init__(self, np_alias, rename):
        self.np_alias = np_alias
        self.rename = rename

    def visit_Name(self, node):
        if node.id in self.np_alias:
            return ast.Name(id="NP", ctx=ast.Load())
        if node.id in self.rename:
            return ast.Name(id=self.rename[node.id], ctx=ast.Load())
        return ast.Name(id=node.id, ctx=ast.Load())

    def visit_arg(self, node):
        return ast.arg(arg=self.rename.get(node.arg, node.arg), annotation=None)

    def visit_Constant(self, node):
        v = node.value
        if isinstance(v, bool) or v is None or isinstance(v, (str, bytes)):
            return ast.Constant(value=v)
        if isinstance(v, (int, float)):
            try:
                return ast.Constant(value="num:%s" % Fraction(repr(v)))
            except (ValueError, OverflowError):
                return ast.Constant(value="num:%r" % v)
        return ast.Constant(value=repr(v))

    def visit_Attribute(self, node):
        self.generic_visit(node)
        return ast.Attribute(value=node.value, attr=node.attr, ctx=ast.Load())

    def visit_Subscript(self, node):
        self.generic_visit(node)
        return ast.Subscript(value=node.value, slice=node.slice, ctx=ast.Load())

    def visit_Tuple(self, node):
        self.generic_visit(node)
        return ast.Tuple(elts=node.elts, ctx=ast.Load())

    def visit_List(self, node):
        self.generic_visit(node)
        return ast.List(elts=node.elts, ctx=ast.Load())

    def visit_BinOp(self, node):
        self.generic_visit(node)
        # 2*NP.pi -> TAU ; 4*NP.pi -> 2*TAU
        if isinstance(node.op, ast.Mult):
            for a, b in ((node.left, node.right), (node.right, node.left)):
                if _is_pi(b) and isinstance(a, ast.Constant) and isinstance(a.value, str) and a.value.startswith("num:"):
                    k = Fraction(a.value[4:])
                    if k == 2:
                        return ast.Name(id="TAU", ctx=ast.Load())
                    if k == 4:
                        return ast.BinOp(left=ast.Constant(value="num:2"), op=ast.Mult(),
                                         right=ast.Name(id="TAU", ctx=ast.Load()))
        return node


def _is_pi(n):
    return isinstance(n, ast.Attribute) and n.attr == "pi" and isinstance(n.value, ast.Name) and n.value.id == "NP"


def local_names(fn):
    """names bound in the function, in order of first binding"""
    order = []

    def add(n):
        if n not in order:
            order.append(n)
    for a in fn.args.args:
        add(a.arg)

    class V(ast.NodeVisitor):
        def visit_Name(self, node):
            if isinstance(node.ctx, (ast.Store, ast.Del)):
                add(node.id)

        def visit_FunctionDef(self, node):
            if node is fn:
                self.generic_visit(node)
    V().visit(fn)
    return order


def normalise(mod, fn, keep_names=(), extra_rename=None):
    """-> normalised copy of the FunctionDef (name kept)"""
    fn2 = copy.deepcopy(fn)
    fn2.body = [s for s in body_wo_doc(fn2) if not _is_logger_stmt(s)]
    # drop logger statements nested in blocks
    for node in ast.walk(fn2):
        for field in ("body", "orelse", "finalbody"):
            b = getattr(node, field, None)
            if isinstance(b, list):
                nb = [s for s in b if not _is_logger_stmt(s)]
                if not nb and b and field == "body":
                    nb = [ast.Pass()]
                setattr(node, field, nb)
    names = local_names(fn2)
    rename = {}
    i = 0
    for nme in names:
        if nme in keep_names:
            continue
        rename[nme] = "v%d" % i
        i += 1
    if extra_rename:
        for k, v in extra_rename.items():
            if v in rename:
                rename[k] = rename[v]
    fn2.decorator_list = []
    fn2.returns = None
    out = _Normaliser(mod.np_alias, rename).visit(fn2)
    ast.fix_missing_locations(out)
    return out, rename


def dump(node):
    return ast.dump(node, annotate_fields=False, include_attributes=False)


def is_tau(n):
    return isinstance(n, ast.Name) and n.id == "TAU"


def _tau_factor(n):
    """if n == X*TAU, TAU*X or X/TAU, or the same with (k*TAU): -> (X, +1|-1, k)"""
    if isinstance(n, ast.BinOp):
        if isinstance(n.op, ast.Mult):
            if is_tau(n.right):
                return n.left, +1
            if is_tau(n.left):
                return n.right, +1
        if isinstance(n.op, ast.Div) and is_tau(n.right):
            return n.left, -1
    return None


COMMUTATIVE = (ast.Add, ast.Mult)


class Diff:
    def __init__(self):
        self.tau_sites = []      # (weight, text)
        self.tokens = []         # (left text, right text)
        self.shapes = []         # (left text, right text)

    @property
    def equal(self):
        return not self.tokens and not self.shapes


def tree_diff(a, b, d: Diff, allow_tau=True):
    """compare normalised trees a (left/tools) and b (right/laue)"""
    if isinstance(a, ast.AST) and isinstance(b, ast.AST) and dump(a) == dump(b):
        return
    if isinstance(a, ast.AST) and allow_tau:
        tf = _tau_factor(a)
        if tf is not None:
            sub = Diff()
            tree_diff(tf[0], b, sub, allow_tau)
            if sub.equal:
                d.tau_sites.append((tf[1], unparse(a)))
                d.tau_sites.extend(sub.tau_sites)
                return
    if isinstance(a, list) and isinstance(b, list):
        # statement / element lists; tolerate statements `X = X op TAU` on the left only
        i = j = 0
        while i < len(a) or j < len(b):
            if i < len(a) and j < len(b):
                sub = Diff()
                tree_diff(a[i], b[j], sub, allow_tau)
                if sub.equal:
                    d.tau_sites.extend(sub.tau_sites)
                    i += 1
                    j += 1
                    continue
            if i < len(a) and allow_tau and _is_tau_rescale_stmt(a[i]):
                d.tau_sites.append((_is_tau_rescale_stmt(a[i]), unparse(a[i])))
                i += 1
                continue
            if i < len(a) and j < len(b):
                tree_diff(a[i], b[j], d, allow_tau)
                i += 1
                j += 1
                continue
            if i < len(a):
                d.shapes.append((unparse(a[i]) if isinstance(a[i], ast.AST) else repr(a[i]), "<nothing>"))
                i += 1
            else:
                d.shapes.append(("<nothing>", unparse(b[j]) if isinstance(b[j], ast.AST) else repr(b[j])))
                j += 1
        return
    if isinstance(a, ast.AST) and isinstance(b, ast.AST):
        if type(a) is not type(b):
            # operator classes are leaves: token difference
            if isinstance(a, (ast.operator, ast.cmpop, ast.unaryop, ast.boolop)) and \
                    isinstance(b, (ast.operator, ast.cmpop, ast.unaryop, ast.boolop)):
                d.tokens.append((type(a).__name__, type(b).__name__))
            else:
                d.shapes.append((unparse(a)[:80], unparse(b)[:80]))
            return
        if isinstance(a, ast.BinOp) and isinstance(a.op, COMMUTATIVE) and type(a.op) is type(b.op):
            # try both orders (scalar commutativity is only used to avoid a token report;
            # it is reported as 'commuted' in the tau list with weight 0)
            s1 = Diff()
            tree_diff(a.left, b.left, s1, allow_tau)
            tree_diff(a.right, b.right, s1, allow_tau)
            if s1.equal:
                d.tau_sites.extend(s1.tau_sites)
                return
            s2 = Diff()
            tree_diff(a.left, b.right, s2, allow_tau)
            tree_diff(a.right, b.left, s2, allow_tau)
            if s2.equal and not _maybe_matrix(a):
                d.tau_sites.extend(s2.tau_sites)
                d.tau_sites.append((0, "commuted: " + unparse(a)[:60]))
                return
            d.tokens.extend(s1.tokens)
            d.shapes.extend(s1.shapes)
            return
        for f in a._fields:
            tree_diff(getattr(a, f, None), getattr(b, f, None), d, allow_tau)
        return
    if a != b:
        if isinstance(a, (str, int, float, bool, type(None))) and isinstance(b, (str, int, float, bool, type(None))):
            d.tokens.append((repr(a), repr(b)))
        else:
            d.shapes.append((repr(a)[:80], repr(b)[:80]))


def _maybe_matrix(n):
    """operands of `*` that are calls to dot/array or attribute .T could be matrices,
    but numpy `*` is elementwise, hence commutative; only `@` is not (not used in xfab)."""
    return False


def _is_tau_rescale_stmt(st):
    """`X = X / TAU` or `X = X * TAU`  ->  -1 | +1 | None"""
    if isinstance(st, ast.Assign) and len(st.targets) == 1 and isinstance(st.targets[0], ast.Name):
        tf = _tau_factor(st.value)
        if tf is not None and isinstance(tf[0], ast.Name) and tf[0].id == st.targets[0].id:
            return tf[1]
    return None
