"""
The input domain the properties quantify over, in machine form: intervals of the symbolic inputs by the names the rules give
them.  Every property that mentions a unit cell quantifies over geometrically valid cells (edges > 0, angles strictly between 0
and 180 degrees), every one that mentions a wavelength, a distance, a pixel size or a Bragg angle over physically meaningful
ones.  An argument check a maintainer adds (`if n.any(cell[:3] <= 0): raise ValueError`) compares exactly these quantities; the
evaluator answers such a comparison from this table before it asks a rule's own policy, so a guard that only rejects input
outside the domain is passed on the analysed path -- and a guard that would reject VALID input (`alpha > 90`) is not answered
here and stays a case distinction.

    sign(d)        ->  +1 | -1 | None        the strict sign of the normal form d for every input of the domain
    decide(op, d)  ->  True | False | None   truth of `d op 0` on the whole domain (weak bounds count: -1 <= costth holds)
"""
import re
from fractions import Fraction

from .poly import Rat, ATOM_ARGS, RADICAND, mono_items

PI = Rat.atom("pi")

# (pattern of the atom, lower bound, upper bound, lower strict, upper strict); bounds: number | ("pi", q) | None
TABLE = [
    (re.compile(r"^\w*cell\w*\[[0-2]\]$"), 0, None, True, True),            # a, b, c > 0
    (re.compile(r"^\w*cell\w*\[[3-5]\]$"), 0, 180, True, True),             # 0 < alpha, beta, gamma < 180 (degrees)
    (re.compile(r"^(wavelength|wavelen|lambda_|distance|y_size|z_size|pixelsize)$"), 0, None, True, True),
    (re.compile(r"^det[yz]_size$"), 1, None, False, True),                  # at least one pixel
    (re.compile(r"^(twoth|tth|two_theta)$"), 0, ("pi", 1), True, True),     # 0 < 2 theta < pi
    (re.compile(r"^costth$"), -1, 1, False, False),                           # a cosine
    (re.compile(r"^sintlmax$"), 0, None, True, True),
    (re.compile(r"^sintlmin$"), 0, None, False, True),
]


ORDERED = [("sintlmin", "sintlmax")]        # (small, large): small < large on the whole domain (a shell has a positive width)

_IV_CACHE = {}
_POS_CACHE = {}


def interval_of(atom):
    if atom in _IV_CACHE:
        return _IV_CACHE[atom]
    r = None
    for pat, lo, hi, slo, shi in TABLE:
        if pat.match(atom):
            r = (lo, hi, slo, shi)
            break
    if r is None and atom in ATOM_ARGS and ATOM_ARGS[atom][0] in ("cos", "sin") and len(ATOM_ARGS[atom][1]) == 1:
        r = (-1, 1, False, False)           # every cosine and sine of a real argument
    if r is None and atom in ATOM_ARGS and ATOM_ARGS[atom][0] == "clip" and len(ATOM_ARGS[atom][1]) == 3 \
            and ATOM_ARGS[atom][1][1].is_const() and ATOM_ARGS[atom][1][2].is_const():
        lo_, hi_ = ATOM_ARGS[atom][1][1].const_value(), ATOM_ARGS[atom][1][2].const_value()
        if lo_ <= hi_:
            r = (lo_, hi_, False, False)    # a clipped value lies between its bounds
    if r is None and atom in ATOM_ARGS and ATOM_ARGS[atom][0] == "abs" and len(ATOM_ARGS[atom][1]) == 1:
        from .poly import single_atom
        b = single_atom(ATOM_ARGS[atom][1][0])
        inner = interval_of(b) if b is not None else None
        if inner is not None and inner[0] is not None and inner[1] is not None and not isinstance(inner[0], tuple) and not isinstance(inner[1], tuple):
            lo_, hi_ = inner[0], inner[1]
            r = (0 if lo_ <= 0 <= hi_ else min(abs(lo_), abs(hi_)), max(abs(lo_), abs(hi_)), False, False)
        elif r is None:
            r = (0, None, False, True)      # an absolute value is not negative
    _IV_CACHE[atom] = r
    return r


def positive_atom(a):
    """the atom is > 0 on the whole domain"""
    if a not in _POS_CACHE:
        _POS_CACHE[a] = _positive_atom(a)
    return _POS_CACHE[a]


def _positive_atom(a):
    iv = interval_of(a)
    if iv is not None:
        lo, _hi, slo, _shi = iv
        return lo is not None and not isinstance(lo, tuple) and (lo > 0 or (lo == 0 and slo))
    if a == "pi":
        return True
    if a in ATOM_ARGS:
        name, args = ATOM_ARGS[a]
        if name == "sin" and len(args) == 1:
            # sin of an angle of the cell given in degrees: strictly between 0 and pi
            x = args[0] * 180 / PI
            from .poly import single_atom
            b = single_atom(x)
            if b is not None:
                iv = interval_of(b)
                return iv is not None and iv[0] == 0 and iv[1] == 180
            x2 = args[0]
            b = single_atom(x2)
            if b is not None:
                iv = interval_of(b)
                return iv is not None and iv[0] == 0 and iv[1] == ("pi", 1)
    return False


def _bound(v):
    if v is None:
        return None
    if isinstance(v, tuple):
        return PI * Fraction(v[1])
    return Rat.const(Fraction(v))


def _const_sign(r):
    """sign of a closed expression (a rational, or a polynomial in pi)"""
    if r.is_const():
        c = r.const_value()
        return (c > 0) - (c < 0)
    if r.atoms() <= {"pi"}:
        from .symeval import pi_sign
        return pi_sign(r)
    return None


def enclosure(d):
    """(lo, lo_strict, hi, hi_strict): closed expressions (Rat, or None for unbounded) such that lo <(=) d <(=) hi on the whole
    domain, or None if this table says nothing about d"""
    if not isinstance(d, Rat) or d.is_const():
        return None
    atoms = d.atoms()
    if not any(interval_of(a) is not None or positive_atom(a) for a in atoms):
        return None                       # nothing of the table occurs: the common case, kept cheap
    zero = Rat.const(0)
    # 0. ordered pairs: d = c * (small - large)
    if len(atoms) == 2:
        for small, large in ORDERED:
            if atoms == {small, large}:
                q = d / (Rat.atom(small) - Rat.atom(large))
                if q.is_const() and q.const_value() != 0:
                    return (None, True, zero, True) if q.const_value() > 0 else (zero, True, None, True)
    # 1. a quotient of same-signed sums of monomials in positive atoms
    if all(positive_atom(a) for a in atoms):
        sn = {c > 0 for c in d.num.values()}
        sd = {c > 0 for c in d.den.values()}
        if len(sn) == 1 and len(sd) == 1:
            return (zero, True, None, True) if sn == sd else (None, True, zero, True)
    # 2. affine in atoms with known intervals: the extreme values decide
    if len(d.den) == 1 and next(iter(d.den)) == 0:
        dc = Fraction(next(iter(d.den.values())))
        lin, rest = {}, Rat.const(0)
        for m, c in d.num.items():
            it = mono_items(m)
            if len(it) == 1 and it[0][1] == 1 and it[0][0] != "pi" and interval_of(it[0][0]) is not None:
                lin[it[0][0]] = lin.get(it[0][0], 0) + Fraction(c) / dc
            elif all(a == "pi" for a, _e in it):
                t = Rat.const(Fraction(c) / dc)
                for a, e in it:
                    t = t * (PI ** e)
                rest = rest + t
            else:
                return None
        if not lin:
            return None
        lo, hi, lo_strict, hi_strict = rest, rest, False, False
        for a, c in lin.items():
            alo, ahi, slo, shi = interval_of(a)
            lo_end, lo_s = (alo, slo) if c > 0 else (ahi, shi)
            hi_end, hi_s = (ahi, shi) if c > 0 else (alo, slo)
            if lo is not None:
                if lo_end is None:
                    lo = None
                else:
                    lo = lo + _bound(lo_end) * c
                    lo_strict = lo_strict or lo_s
            if hi is not None:
                if hi_end is None:
                    hi = None
                else:
                    hi = hi + _bound(hi_end) * c
                    hi_strict = hi_strict or hi_s
        return lo, lo_strict, hi, hi_strict
    return None


def _facts(d):
    """-> (certainly > 0, certainly >= 0, certainly < 0, certainly <= 0)"""
    e = enclosure(d)
    if e is None:
        return False, False, False, False
    lo, ls, hi, hs = e
    slo = _const_sign(lo) if lo is not None else None
    shi = _const_sign(hi) if hi is not None else None
    pos = slo is not None and (slo > 0 or (slo == 0 and ls))
    nonneg = slo is not None and slo >= 0
    neg = shi is not None and (shi < 0 or (shi == 0 and hs))
    nonpos = shi is not None and shi <= 0
    return pos, nonneg, neg, nonpos


def sign(d):
    pos, _nn, neg, _np = _facts(d)
    return 1 if pos else -1 if neg else None


def decide(op, d):
    """truth of `d <op> 0` (op: 'Lt', 'LtE', 'Gt', 'GtE', 'Eq', 'NotEq') on the whole domain, or None"""
    pos, nonneg, neg, nonpos = _facts(d)
    if op == "Lt":
        return True if neg else False if nonneg else None
    if op == "LtE":
        return True if nonpos else False if pos else None
    if op == "Gt":
        return True if pos else False if nonpos else None
    if op == "GtE":
        return True if nonneg else False if neg else None
    if op == "Eq":
        return False if (pos or neg) else None
    if op == "NotEq":
        return True if (pos or neg) else None
    return None
