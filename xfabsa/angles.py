"""
Angles that are sums of principal values (arctan2 / arcsin / arccos / arctan atoms, symbolic angles, multiples of pi):

    decompose(w)      -> ([(coefficient, atom)], q)  with w = sum coefficient*atom + q*pi, integer coefficients, rational q
    cos_sin(w)        -> (cos w, sin w) as normal forms, by the addition theorems over the terms of the decomposition
    interval(w)       -> (lo, hi) in units of pi from the ranges of the principal values (the atoms taken as independent)
    in_principal_range(w, constraints) -> True | (False, (lo, hi)): is (-pi, pi] established by the ranges and by the
                         comparisons `constraints` = [(difference d, sign)] the analysed path has passed
    witness_outside(w, conditions, points) -> a sample point at which the conditions hold and w lies outside (-pi, pi] (the
                         normal forms are evaluated numerically, xfabsa/numeval.py; nothing of xfab runs), or None

A rule that needs "omega is an angle in (-pi, pi] whose cosine and sine solve the equation" can use these whatever inverse
function the code computes the root with.
"""
import math
from fractions import Fraction

from . import numeric as N, numeval
from .core import AnalysisError
from .poly import Rat, ATOM_ARGS, RADICAND, sqrt_of

RANGES = {"arctan2": (Fraction(-1), Fraction(1)), "arccos": (Fraction(0), Fraction(1)),
          "arcsin": (Fraction(-1, 2), Fraction(1, 2)), "arctan": (Fraction(-1, 2), Fraction(1, 2))}


def decompose(w):
    """w = sum c_a * a + q*pi -> ([(c_a, a)], q) or None"""
    from .symeval import scalar
    w = scalar(w)
    atoms = sorted(a for a in w.atoms() if a != "pi")
    terms = []
    rest = w
    for a in atoms:
        A = Rat.atom(a)
        c = w.subs({a: A + 1}) - w
        if not c.is_const():
            return None
        cv = Fraction(c.const_value())
        if cv.denominator != 1:
            return None
        terms.append((int(cv), a))
        rest = rest - cv * A
    q = rest / Rat.atom("pi")
    if not q.is_const():
        return None
    return terms, Fraction(q.const_value())


def _base(a):
    """(cos, sin) of the angle atom a"""
    if a in ATOM_ARGS:
        name, args = ATOM_ARGS[a]
        if name == "arctan2" and len(args) == 2:
            y, x = args
            rho = sqrt_of(x * x + y * y)
            return x / rho, y / rho
        if name == "arcsin":
            u = args[0]
            return sqrt_of(1 - u * u), u
        if name == "arccos":
            u = args[0]
            return u, sqrt_of(1 - u * u)
        if name == "arctan":
            u = args[0]
            r = sqrt_of(1 + u * u)
            return 1 / r, u / r
        return None
    if a in RADICAND:
        return None
    A = Rat.atom(a)
    return N.ref("cos(t)", {"t": A}), N.ref("sin(t)", {"t": A})


def cos_sin(w):
    d = decompose(w)
    if d is None:
        return None
    terms, q = d
    c, s = N.ref("cos(t)", {"t": q * Rat.atom("pi")}), N.ref("sin(t)", {"t": q * Rat.atom("pi")})
    for coef, a in terms:
        b = _base(a)
        if b is None or abs(coef) > 4:
            return None
        cb, sb = b
        if coef < 0:
            sb = -sb
        for _ in range(abs(coef)):
            c, s = c * cb - s * sb, s * cb + c * sb
    return c, s


def _single(r):
    from .poly import single_atom
    return single_atom(r)


def interval(w):
    d = decompose(w)
    if d is None:
        return None
    terms, q = d
    lo = hi = q
    for coef, a in terms:
        if a not in ATOM_ARGS or ATOM_ARGS[a][0] not in RANGES:
            return None
        l, h = RANGES[ATOM_ARGS[a][0]]
        lo += min(coef * l, coef * h)
        hi += max(coef * l, coef * h)
    return lo, hi


def in_principal_range(w, constraints):
    iv = interval(w)
    if iv is None:
        return (False, None)
    lo, hi = iv
    pi = Rat.atom("pi")
    for d, sg in constraints:
        # a comparison the path has passed whose difference is d = +-w + r*pi (constant r) bounds w
        for sign in (1, -1):
            r = (d - sign * w) / pi
            if not r.is_const():
                continue
            rv = Fraction(r.const_value())
            if sign == 1:            # w + r*pi has the sign sg
                if sg >= 0:
                    lo = max(lo, -rv)
                if sg <= 0:
                    hi = min(hi, -rv)
            else:                    # -w + r*pi has the sign sg
                if sg >= 0:
                    hi = min(hi, rv)
                if sg <= 0:
                    lo = max(lo, rv)
            break
    if lo >= -1 and hi <= 1:
        return True
    return (False, (lo, hi))


def witness_outside(w, conditions, points):
    """first sample point at which every (expression, sign) of `conditions` has that sign and w is outside (-pi, pi]"""
    for pt in points:
        try:
            if any(((numeval.value(e, pt) > 0) - (numeval.value(e, pt) < 0)) != sg for e, sg in conditions):
                continue
            v = numeval.value(w, pt)
        except (numeval.NoValue, ZeroDivisionError, ValueError, OverflowError):
            continue
        if not (-math.pi < v <= math.pi + 1e-12):
            return {"at": {k: round(float(x), 6) for k, x in pt.items()}, "value": v}
    return None


def same_angle(x, y, constraints):
    """two sums of principal values denote the same angle: equal cosine and sine, and both in (-pi, pi] by their ranges and
    the comparisons the path has passed"""
    dx, dy = decompose(x), decompose(y)
    if dx is None or dy is None:
        return False

    def principal(d):
        return bool(d[0]) and all(a in ATOM_ARGS and ATOM_ARGS[a][0] in RANGES for _c, a in d[0])
    if not (principal(dx) and principal(dy)):
        return False
    cx, cy = cos_sin(x), cos_sin(y)
    if cx is None or cy is None or not (cx[0].equals(cy[0]) and cx[1].equals(cy[1])):
        return False
    return in_principal_range(x, constraints) is True and in_principal_range(y, constraints) is True
