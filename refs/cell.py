"""
Reference closed forms for the unit-cell algebra (C01), written as Python
expressions over the names

    a b c      cell edges                  ca cb cg   cos(alpha, beta, gamma)
    sa sb sg   sin(alpha, beta, gamma)     W          sqrt(1-ca^2-cb^2-cg^2+2 ca cb cg)
    tau        2*pi in xfab.tools, 1 in xfab.laue     pi

Sources: Int. Tables for Crystallography B, sect. 1.1 (metric tensors, reciprocal
cell); Busing & Levy, Acta Cryst. 22 (1967) 457 (B matrix); H.F. Poulsen,
Three-Dimensional X-ray Diffraction Microscopy (2004) eq. 3.4 and 3.23.

Uniqueness lemma used by C01: a positive-definite G has exactly one upper
triangular factor with positive diagonal (Cholesky), so "entry == reference"
is equivalent to A'A = G / B'B = tau^2 G^-1 plus the triangular/sign clauses.
The self-test at the bottom (run by the checker, on these references only)
verifies A'A = G, det A = V and B'B G = tau^2 I in the normal form.
"""

W = "sqrt(1 - ca**2 - cb**2 - cg**2 + 2*ca*cb*cg)"
V = "a*b*c*W"

# direct metric tensor G_ij = a_i . a_j
G = [["a*a", "a*b*cg", "a*c*cb"],
     ["a*b*cg", "b*b", "b*c*ca"],
     ["a*c*cb", "b*c*ca", "c*c"]]

# reciprocal metric tensor G*_ij = a*_i . a*_j  (without 2 pi), = G^-1
GSTAR = [["b*b*c*c*sa*sa/(V*V)", "a*b*c*c*(ca*cb-cg)/(V*V)", "a*b*b*c*(ca*cg-cb)/(V*V)"],
         ["a*b*c*c*(ca*cb-cg)/(V*V)", "a*a*c*c*sb*sb/(V*V)", "a*a*b*c*(cb*cg-ca)/(V*V)"],
         ["a*b*b*c*(ca*cg-cb)/(V*V)", "a*a*b*c*(cb*cg-ca)/(V*V)", "a*a*b*b*sg*sg/(V*V)"]]

# Poulsen eq. 3.23: upper-triangular factor of G
A = [["a", "b*cg", "c*cb"],
     ["0", "b*sg", "c*(ca - cb*cg)/sg"],
     ["0", "0", "V/(a*b*sg)"]]

# Poulsen eq. 3.4 / Busing-Levy: upper-triangular factor of tau^2 G*
B = [["tau*b*c*sa/V", "tau*(a*c*sb/V)*(ca*cb-cg)/(sa*sb)", "tau*(a*b*sg/V)*(ca*cg-cb)/(sa*sg)"],
     ["0", "tau/(b*sa)", "-tau*ca/(c*sa)"],
     ["0", "0", "tau/c"]]

# reciprocal cell
CELL_INVERT = ["b*c*sa/V", "a*c*sb/V", "a*b*sg/V",
               "arccos((cb*cg-ca)/(sb*sg))*180/pi",
               "arccos((ca*cg-cb)/(sa*sg))*180/pi",
               "arccos((ca*cb-cg)/(sa*sb))*180/pi"]

# (sin(theta)/lambda)^2 = h' G* h / 4
SINTL_SQ = ("(h*h*%s + k*k*%s + l*l*%s + 2*h*k*%s + 2*h*l*%s + 2*k*l*%s)/4"
            % (GSTAR[0][0], GSTAR[1][1], GSTAR[2][2], GSTAR[0][1], GSTAR[0][2], GSTAR[1][2]))

# inverse maps: metric of a matrix X whose COLUMNS are the lattice vectors
# (g = X' X), lengths sqrt(g_ii), angles from g_jk
CELL_FROM_COLUMNS = ["sqrt(g00)", "sqrt(g11)", "sqrt(g22)",
                     "arccos(g12/(sqrt(g11)*sqrt(g22)))*180/pi",
                     "arccos(g02/(sqrt(g00)*sqrt(g22)))*180/pi",
                     "arccos(g01/(sqrt(g00)*sqrt(g11)))*180/pi"]
