"""
Reference rotation matrices (C03, C09, C10), as expression strings over cosine
and sine names.  Right-handed active elementary rotations:

    Rx(t) = [[1,0,0],[0,c,-s],[0,s,c]]   Ry(t) = [[c,0,s],[0,1,0],[-s,0,c]]
    Rz(t) = [[c,-s,0],[s,c,0],[0,0,1]]

Bunge Euler matrix (ID11-3DXRD specs / Poulsen 2004 app. A):
    U = Rz(phi1) Rx(PHI) Rz(phi2)
Rodrigues (passive sense of the library: transpose of the active rotation by
2*atan|r| about r):
    U_ij = ((1 - r.r) d_ij + 2 r_i r_j + 2 e_ijk r_k) / (1 + r.r)
Unit quaternion (q0, q1, q2, q3) -> active rotation matrix (standard formula).
"""


def Rx(c, s):
    return [["1", "0", "0"], ["0", c, "-(%s)" % s], ["0", s, c]]


def Ry(c, s):
    return [[c, "0", s], ["0", "1", "0"], ["-(%s)" % s, "0", c]]


def Rz(c, s):
    return [[c, "-(%s)" % s, "0"], [s, c, "0"], ["0", "0", "1"]]


LEVI = {(0, 1, 2): 1, (1, 2, 0): 1, (2, 0, 1): 1, (2, 1, 0): -1, (0, 2, 1): -1, (1, 0, 2): -1}

QUAT = [["1-2*q2**2-2*q3**2", "2*q1*q2-2*q3*q0", "2*q1*q3+2*q2*q0"],
        ["2*q1*q2+2*q3*q0", "1-2*q1**2-2*q3**2", "2*q2*q3-2*q1*q0"],
        ["2*q1*q3-2*q2*q0", "2*q2*q3+2*q1*q0", "1-2*q1**2-2*q2**2"]]
